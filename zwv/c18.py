"""C18 — ELF symbols are reported completely and faithfully."""
import glob
import os
import shutil
import subprocess
import tempfile
from . import common, zwcorr, dwcorr, elfsym

THEOREMS = ["ZwVerif.C18." + t for t in
            ["symbols_complete", "symbols_count", "symbols_single", "symbols_order", "positions_from_zero", "info_unpack",
             "vis_unpack", "generic_equal_across_machines", "specific_never_equal_across_families", "families", "specific_names"]]

QUERY = 'symbol [pos, name, value, address, size, label, binding, visibility, label "%s", binding "%s", visibility "%s"]'
# harness labels of the per-machine families: the machines harness/zwcommon.hh probes
PROBED = [0, 40, 2, 8, 15, 21, 50, 0x9026, 20, 62, 3, 183]


def fam_label(prefix, fam):
    return "%s@%d" % (prefix, fam if fam in PROBED else 0)


def unknown_name(code):
    return "??? (%#x)" % code


def expected_records(machine, syms, model_lines):
    out = []
    for i, (s, ml) in enumerate(zip(syms, model_lines)):
        f = ml.split(" ")
        pos, typ, tf, tn, bind, bf, bn, vis, vn = int(f[0]), int(f[1]), int(f[2]), f[3], int(f[4]), int(f[5]), f[6], int(f[7]), f[8]
        tn = unknown_name(typ) if tn == "???" else tn
        bn = unknown_name(bind) if bn == "???" else bn
        out.append([("c", "pos", pos), ("s", s["name"]), ("c", "Dwarf_Address", s["value"]), ("c", "Dwarf_Address", s["value"]),
                    ("c", "dec", s["size"]), ("c", fam_label("STT_", tf), typ), ("c", fam_label("STB_", bf), bind),
                    ("c", "STV_", vis), ("s", ("STT_" + tn).encode()), ("s", ("STB_" + bn).encode()), ("s", ("STV_" + vn).encode())])
    return out


def spec_records(machine, syms):
    """straight from the stored fields (no model): positions, names, values, sizes, codes"""
    return [[i, s["name"], s["value"], s["size"], s["type"], s["bind"], s["vis"]] for i, s in enumerate(syms)]


def observed_spec(rec):
    return [rec[0][2], rec[1][1], rec[2][2], rec[4][2], rec[5][2], rec[6][2], rec[7][2]]


def model_lines(machine, syms):
    toks = ["SYM", str(machine)]
    for s in syms:
        toks += [str((s["bind"] << 4) | s["type"]), str((s.get("other_hi", 0) << 2) | s["vis"])]
    out = common.run_model([" ".join(toks)])
    return [l for l in out if l != "."]


def run(ctx):
    if ctx.replay:
        return dwcorr.run_replay(ctx)
    ctx.prove("ZwVerif.Props.C18", THEOREMS)
    h = zwcorr.Harness(ctx, secs=20)
    work = tempfile.mkdtemp(prefix="zwv-sym-", dir=os.path.join(common.VERIF, "build"))
    rng = ctx.rng
    n = 60 if ctx.tier == "quick" else 1500
    total = 0
    ok = 0
    by_target = {}
    combos = set()
    per_file = {}          # k -> records of file k asked on its own (files the library agreed with the model on)
    per_machine = {}

    def inp(path, q, syms=None):
        import base64
        return {"object_b64": base64.b64encode(open(path, "rb").read()).decode() if os.path.getsize(path) < 200000 else None,
                "file": path, "query": q}
    try:
        for k in range(n):
            target = elfsym.TARGETS[k % len(elfsym.TARGETS)]
            o = elfsym.gen_symobj(rng, target)
            path = os.path.join(work, "s%d.o" % k)
            open(path, "wb").write(o.bytes())
            machine = elfsym.EM[o.machine]
            recs, crashes = h.run_impl_robust(["Q - %s %s" % (zwcorr.hx(QUERY), zwcorr.hx(path))])
            if crashes or recs[0].err:
                ctx.violation("the library failed on a generated %s object with %d symbols: %s" % (o.machine, len(o.symbols), crashes or recs[0].err),
                              {"stream": "C18-gen", "input": inp(path, QUERY)})
                continue
            got = [dwcorr.parse_vals(r[r.index("["):])[0][1] for r in recs[0].res]
            ml = model_lines(machine, o.symbols)
            want = expected_records(machine, o.symbols, ml)
            total += len(o.symbols)
            by_target["%s/%d/%s" % (o.machine, o.bits, "le" if o.le else "be")] = by_target.get("%s/%d/%s" % (o.machine, o.bits, "le" if o.le else "be"), 0) + len(o.symbols)
            for s in o.symbols:
                combos.add((s["type"], s["bind"], s["vis"]))
            sg = [observed_spec(r) for r in got if len(r) >= 8]
            sw = spec_records(machine, o.symbols)
            if sg != sw:
                i = next((i for i, (a, b) in enumerate(zip(sg, sw)) if a != b), min(len(sg), len(sw)))
                ctx.violation("%s object: symbol #%d reported as %r, the table stores %r (library lists %d symbols, table has %d)"
                              % (o.machine, i, sg[i] if i < len(sg) else None, sw[i] if i < len(sw) else None, len(sg), len(sw)),
                              {"stream": "C18-gen", "input": inp(path, QUERY), "got": repr(sg[i] if i < len(sg) else None),
                               "expected": repr(sw[i] if i < len(sw) else None)})
            elif got != want:
                i = next((i for i, (a, b) in enumerate(zip(got, want)) if a != b), min(len(got), len(want)))
                ctx.violation("%s object: symbol #%d: library %r, model %r" % (o.machine, i, got[i] if i < len(got) else None,
                                                                              want[i] if i < len(want) else None),
                              {"stream": "C18-gen", "input": inp(path, QUERY), "got": repr(got[i] if i < len(got) else None),
                               "expected": repr(want[i] if i < len(want) else None), "theorem": "ZwVerif.C18.specific_names"})
            else:
                ok += 1
                per_file[k] = got
                per_machine[k] = o.machine
            # family laws on the implementation: machine-specific names hold only in their own family
            if k < 3 * len(elfsym.TARGETS):
                laws = [("STT_ARM_TFUNC", 13, 40, "label"), ("STT_SPARC_REGISTER", 13, 2, "label"), ("STT_PARISC_MILLICODE", 13, 15, "label"),
                        ("STB_MIPS_SPLIT_COMMON", 13, 8, "binding"), ("STT_FUNC", 2, None, "label"), ("STB_GLOBAL", 1, None, "binding")]
                if k < len(elfsym.TARGETS):
                    cl = dwcorr.copy_laws("symbol", "symbol", ["name", "label", "binding", "visibility", "size", "value", "address"])
                    cr_, _ = h.run_impl_robust(["Q - %s %s" % (zwcorr.hx(q), zwcorr.hx(path)) for _, q in cl])
                    for (nm, q), r in zip(cl, cr_):
                        if r.err and r.err.startswith("compile"):
                            raise RuntimeError("law query does not compile: %s: %s" % (q, r.err))
                        if not r.err and r.res:
                            ctx.violation("%s object: law fails: %s — `%s` yields a result" % (o.machine, nm, q),
                                          {"stream": "C18-law", "input": inp(path, q), "got": r.res[:2], "expected": []})
                qs = ["[symbol (%s == %s) pos]" % (w, c) for c, _, _, w in laws]
                rr, cr = h.run_impl_robust(["Q - %s %s" % (zwcorr.hx(q), zwcorr.hx(path)) for q in qs])
                for (c, code, fam, w), r, q in zip(laws, rr, qs):
                    if r.err:
                        continue
                    gotpos = [v[2] for v in dwcorr.parse_vals(r.res[0][r.res[0].index("["):])[0][1]] if r.res else []
                    key = "type" if w == "label" else "bind"
                    wantpos = [i for i, s in enumerate(o.symbols) if s[key] == code and (fam is None or fam == machine)]
                    if gotpos != wantpos:
                        ctx.violation("%s object: `%s` selects symbols %r, expected %r (a machine-specific code belongs to its machine only)"
                                      % (o.machine, q, gotpos, wantpos),
                                      {"stream": "C18-family", "input": inp(path, q), "got": gotpos, "expected": wantpos,
                                       "theorem": "ZwVerif.C18.specific_never_equal_across_families"})
        # several files in ONE query (`dwopen` over a stream of names): every file's symbols in its own machine's families, whatever
        # file came before it — the words are built once per query and live across files
        groups = 12 if ctx.tier == "quick" else 200
        multi_ok = 0
        for gk in range(groups):
            ks = rng.sample(sorted(per_file), min(len(per_file), rng.randint(2, 3)))
            q = "(%s) dwopen %s" % (", ".join('"%s"' % os.path.join(work, "s%d.o" % k) for k in ks), QUERY)
            recs, crashes = h.run_impl_robust(["Q - %s" % zwcorr.hx(q)])
            if crashes or recs[0].err:
                ctx.violation("the library failed on several files opened in one query: %s" % (crashes or recs[0].err),
                              {"stream": "C18-multi", "input": {"query": q, "objects_b64": [inp(os.path.join(work, "s%d.o" % k), q)["object_b64"] for k in ks]}})
                continue
            got = [dwcorr.parse_vals(r[r.index("["):])[0][1] for r in recs[0].res]
            want = [r for k in ks for r in per_file[k]]
            if got != want:
                i = next((i for i, (a, b) in enumerate(zip(got, want)) if a != b), min(len(got), len(want)))
                ctx.violation("files %s opened in one query: symbol #%d of the stream is reported as %r; asked on its own file it is %r"
                              % ([per_machine[k] for k in ks], i, got[i] if i < len(got) else None, want[i] if i < len(want) else None),
                              {"stream": "C18-multi", "input": {"query": q, "objects_b64": [inp(os.path.join(work, "s%d.o" % k), q)["object_b64"] for k in ks]},
                               "got": repr(got[i] if i < len(got) else None), "expected": repr(want[i] if i < len(want) else None),
                               "theorem": "ZwVerif.C18.specific_never_equal_across_families"})
            else:
                multi_ok += 1
        ctx.cov["multi_file_queries_ok"] = multi_ok
        # the CLI's symbol rows start with the entry's index in its table, whatever the query did in between
        import re as _re
        im = ctx.impl("plain")
        cli_ok = 0
        for k in sorted(per_file)[:(6 if ctx.tier == "quick" else 60)]:
            path = os.path.join(work, "s%d.o" % k)
            nsym = len(per_file[k])
            for q, want in (("symbol", list(range(nsym))), ("[symbol] relem", list(range(nsym - 1, -1, -1))),
                            ("[symbol ?(pos != 0)] elem", list(range(1, nsym))), ("symbol ?(pos == %d)" % (nsym - 1), [nsym - 1])):
                r = subprocess.run([im.dwgrep, path, "-e", q], stdout=subprocess.PIPE, stderr=subprocess.PIPE, text=True, errors="replace", timeout=60)
                gotn = [int(m.group(1)) for m in (_re.match(r"^(\d+):\t", l) for l in r.stdout.split("\n")) if m]
                if gotn != want:
                    ctx.violation("dwgrep -e %r on a %s object with %d symbols prints the rows numbered %r; their table indices are %r"
                                  % (q, per_machine[k], nsym, gotn[:12], want[:12]),
                                  {"stream": "C18-cli", "input": inp(path, q), "got": gotn[:40], "expected": want[:40]})
                else:
                    cli_ok += 1
        ctx.cov["cli_row_numbers_ok"] = cli_ok
        # ar archives: one Dwarf with several modules — `symbol` walks every member's table from its first entry
        ar_ok = 0
        bymach = {}
        for k in sorted(per_file):
            bymach.setdefault(per_machine[k], []).append(k)
        archives = [ks for ks in bymach.values() if len(ks) >= 2]
        for ai, ks in enumerate(archives[:(6 if ctx.tier == "quick" else 40)]):
            ks = ks[:rng.randint(2, min(4, len(ks)))]
            apath = os.path.join(work, "a%d.a" % ai)
            subprocess.run(["ar", "rcS", apath] + [os.path.join(work, "s%d.o" % k) for k in ks], check=True)
            recs, crashes = h.run_impl_robust(["Q - %s %s" % (zwcorr.hx(QUERY), zwcorr.hx(apath))])
            if crashes or recs[0].err:
                ctx.violation("the library failed on an ar archive of %d %s objects: %s" % (len(ks), per_machine[ks[0]], crashes or recs[0].err),
                              {"stream": "C18-archive", "input": inp(apath, QUERY)})
                continue
            got = [observed_spec(r)[1:] for r in (dwcorr.parse_vals(r[r.index("["):])[0][1] for r in recs[0].res)]
            # members are modules; libdwfl reports them in some order: compare as a multiset of member tables, each contiguous
            want_sets = [[observed_spec(r)[1:] for r in per_file[k]] for k in ks]
            rest = list(got)
            good = sum(len(w) for w in want_sets) == len(got)
            for w in want_sets:
                found = next((i for i in range(len(rest) - len(w) + 1) if rest[i:i + len(w)] == w), None) if w else 0
                if found is None:
                    good = False
                    break
                del rest[found:found + len(w)]
            if not good:
                ctx.violation("ar archive of %d %s objects: `symbol` yields %d entries; the members' tables hold %r entries and are not all found, "
                              "each whole and in order" % (len(ks), per_machine[ks[0]], len(got), [len(w) for w in want_sets]),
                              {"stream": "C18-archive", "input": inp(apath, QUERY), "got": repr(got[:6]), "expected": repr([w[:2] for w in want_sets]),
                               "theorem": "ZwVerif.C18.symbols_complete"})
            else:
                ar_ok += 1
        ctx.cov["archives_ok"] = ar_ok
        # members for two machines in one archive: one Dwarf cannot name both families — an error, not a crash or a silent choice
        mk = sorted(bymach)
        if len(mk) >= 2:
            apath = os.path.join(work, "mixed.a")
            subprocess.run(["ar", "rcS", apath, os.path.join(work, "s%d.o" % bymach[mk[0]][0]), os.path.join(work, "s%d.o" % bymach[mk[-1]][0])], check=True)
            recs, crashes = h.run_impl_robust(["Q - %s %s" % (zwcorr.hx("symbol label"), zwcorr.hx(apath))])
            if crashes or not recs[0].err:
                ctx.violation("an archive with members for machines %s and %s: `symbol label` %s"
                              % (mk[0], mk[-1], "crashes the process: %s" % crashes if crashes else "names every type in one family without an error"),
                              {"stream": "C18-archive", "input": inp(apath, "symbol label")})
            ctx.cov["mixed_machine_archive"] = recs[0].err if recs and recs[0].err else "no error"
        # the repository's samples against the independent reader and readelf
        samples = sorted(set(glob.glob(os.path.join(common.REPO, "tests", "*.o")) + glob.glob(os.path.join(common.REPO, "tests", "*.out"))
                             + [os.path.join(common.REPO, "tests", f) for f in ("twocus", "dwz-partial", "a1.out", "y.o", "enum.o",
                                                                               "testfile_const_type", "bitcount.o")]))
        samples = [s for s in samples if os.path.isfile(s)]
        if ctx.tier == "quick":
            samples = samples[:14]
        s_ok = 0
        s_syms = 0
        machines = {}
        for s in samples:
            rd = elfsym.read_symtab(s)
            if rd is None:
                continue
            machine, syms = rd
            recs, crashes = h.run_impl_robust(["Q - %s %s" % (zwcorr.hx(QUERY), zwcorr.hx(s))])
            if crashes or recs[0].err:
                continue        # not every sample can be opened (e.g. deliberately broken files)
            got = [dwcorr.parse_vals(r[r.index("["):])[0][1] for r in recs[0].res]
            sg = [observed_spec(r) for r in got]
            sw = spec_records(machine, syms)
            machines[machine] = machines.get(machine, 0) + 1
            s_syms += len(sw)
            if sg != sw:
                i = next((i for i, (a, b) in enumerate(zip(sg, sw)) if a != b), min(len(sg), len(sw)))
                ctx.violation("%s: symbol #%d reported as %r, an independent reader of the symbol table finds %r (library lists %d, table has %d)"
                              % (os.path.basename(s), i, sg[i] if i < len(sg) else None, sw[i] if i < len(sw) else None, len(sg), len(sw)),
                              {"stream": "C18-samples", "input": {"file": s, "query": QUERY}, "got": repr(sg[i] if i < len(sg) else None),
                               "expected": repr(sw[i] if i < len(sw) else None)})
                continue
            # readelf as a second oracle for count, type and binding names
            r = subprocess.run(["readelf", "-sW", s], stdout=subprocess.PIPE, stderr=subprocess.DEVNULL, text=True)
            lines = [l.split() for l in r.stdout.split("\n") if l.strip() and l.split()[0].rstrip(":").isdigit() and l.split()[0].endswith(":")]
            first_tab = []
            for l in lines:
                if int(l[0].rstrip(":")) == 0 and first_tab:
                    break
                first_tab.append(l)
            has_symtab = ".symtab" in r.stdout
            if has_symtab and ".dynsym" in r.stdout:
                # readelf prints .dynsym first; take the .symtab block
                blocks = r.stdout.split("Symbol table '")
                blk = next((b for b in blocks if b.startswith(".symtab")), "")
                first_tab = [l.split() for l in blk.split("\n") if l.strip() and l.split()[0].endswith(":") and l.split()[0].rstrip(":").isdigit()]
            if len(first_tab) == len(got):
                mism = []
                for l, g in zip(first_tab, got):
                    rt, rb = l[3], l[4]
                    gt, gb = g[8][1].decode()[4:], g[9][1].decode()[4:]
                    # readelf has its own spellings for OS- and processor-specific codes (THUMB_FUNC for STT_ARM_TFUNC …):
                    # only the generic names are comparable
                    generic = {"NOTYPE", "OBJECT", "FUNC", "SECTION", "FILE", "COMMON", "TLS", "LOCAL", "GLOBAL", "WEAK"}
                    if (gt in generic or rt in generic) and gt != rt:
                        mism.append((l[0], gt, rt))
                    if (gb in generic or rb in generic) and gb != rb:
                        mism.append((l[0], gb, rb))
                if mism:
                    ctx.violation("%s: type/binding names differ from readelf -sW: %r" % (os.path.basename(s), mism[:4]),
                                  {"stream": "C18-readelf", "input": {"file": s, "query": QUERY}, "got": mism[:4]})
                    continue
            s_ok += 1
    finally:
        shutil.rmtree(work, ignore_errors=True)
    if not ctx.replay:
        ctx.sample({"query": QUERY, "last generated object": "%s/%d, %d symbols" % (o.machine, o.bits, len(o.symbols)),
                    "model lines `<pos> <type> <family> <name> <bind> <family> <name> <vis> <name>`": ml[:3]})
    ctx.cov["evaluations"] = total + s_syms
    ctx.cov["distinct_nontrivial"] = len(combos)
    ctx.cov["generated_objects"] = n
    ctx.cov["generated_objects_agreeing"] = ok
    ctx.cov["symbols_by_target"] = by_target
    ctx.cov["sample_files_agreeing"] = s_ok
    ctx.cov["sample_symbols"] = s_syms
    ctx.cov["sample_machines"] = machines
    ctx.cov["rule"] = ("generated relocatable objects for 13 machine / class / byte-order targets with random symbol tables (all type codes "
                       "0-15, binding codes 0-15, visibilities, undefined / absolute / common / section symbols, empty, long, repeated and "
                       "non-ASCII names, boundary values and sizes): every symbol's pos, name, value, address, size, label, binding, "
                       "visibility and their renderings vs the stored fields and the Lean model (families from the regenerated tables); "
                       "machine-specific names select symbols only in their own machine's files; the repository's sample binaries vs an "
                       "independent ELF reader and readelf -sW; distinct_nontrivial = (type, binding, visibility) combinations seen")
    ctx.assumptions += ["libdwfl (dwfl_module_getsymtab, dwfl_module_getsym_info) is a parameter: a module is its symbol table",
                        "files with both .symtab and an auxiliary symbol table (.gnu_debugdata) are not generated"]
