"""C03 — names resolve lexically: each read sees the binding of its own scope and input."""
import re
from . import common, zwcorr, gen

THEOREMS = ["ZwVerif.C03." + t for t in
            ["lookup_innermost", "lookup_skips_other", "rebind_rejected", "shadow_accepted", "unbound_rejected",
             "scope_no_leak", "alt_no_leak", "or_no_leak", "assertion_no_leak", "splice_no_leak", "block_no_leak",
             "idlist_rightmost_first", "block_captures_creation_env", "apply_is_inline", "bind_pops_tos",
             "dropInner_restores"]]

CORPUS = [
    "(1,2) (let A := ;)? A", "(let A := 1;)? A", '"%( let A := 7; 5 %)" A', "?(let A := 1;) A", "!(let A := 1; 0 1 ?eq) A",
    "[let A := 1; 2] A", "let A := (let B := 1; 2); B", "(let A := 1;)* A", "(let A := 1; || 2) A",
    "if (let A := 1;) then 2 else 3 A", "1 2 (|A B| A B)", "1 2 (|A B| B A)", "let A := 1; let A := 2;",
    "let A := 1; (let A := 2; A) A", "let A := 1; {A} let A := 2; apply", "(1,2) let A := ; {A 10 add} let F := ; (3,4) F",
    "let A B := 1 2; A B", "let A := 1; [|A| A]", "1 2 3 (|A| (|A| (|A| A) A) A)", "let dup := 5; dup", "{|A| A A} let F := ; 3 F",
    "let X := 1; {let X := 2; X} apply X", "let A := 1; let F := {A}; let A := 2;", "(1,2,3) let A := ; (A, A 1 add) let B := ; [A, B]",
]

SUBS = ["?(%s)", "!(%s)", "[%s]", "(%s)", "(%s)*", "(%s)?", "(%s || 0)", "(%s, 0)", "if (%s) then (1) else (2)",
        "if (1) then (%s) else (2)", "if (?(0 1 ?eq)) then (1) else (%s)", '"%%( %s 1 %%)"', "{%s}", "let Q := %s 1;",
        "(%s == 1)", "(1 == %s 1)", "(|R| %s)", "[|R| %s]"]


def binder_program(rng, g):
    """a program built around binders: every binder form, shadowing, multi-yield let bodies, reads inside every kind
    of sub-expression, blocks capturing up-values at several depths, applied several times"""
    env = []
    parts = []
    if rng.random() < 0.6:
        parts.append("(" + ", ".join(g.lit("c")[0] for _ in range(rng.randint(2, 3))) + ")")
        stk = ["c"]
    else:
        stk = []
    for _ in range(rng.randint(2, 5)):
        k = rng.random()
        if k < 0.3:
            t, stk, env = g.g_let(stk, env, 1)
        elif k < 0.45 and stk:
            t, stk, env = g.g_subx(stk, env, 1)
        elif k < 0.6 and env:
            n = rng.choice(env)
            t = rng.choice(SUBS) % n if rng.random() < 0.6 else n
            if t.startswith("{"):
                stk = stk + ["f"]
            elif t.startswith("let Q") and "Q" not in env:
                env = env + ["Q"]
            elif t.startswith("let Q"):
                t = n
                stk = stk + ["?"]
            elif t[0] in "?!i(" and not t.startswith("(|"):
                pass
            else:
                stk = stk + ["?"]
        elif k < 0.75:
            # block capturing up-values, bound to a name, applied later
            fresh = [n for n in gen.NAMES if n not in env]
            if fresh and env:
                f = rng.choice(fresh)
                ups = " ".join(rng.sample(env, min(len(env), rng.randint(1, 3))))
                body = rng.choice(["%s", "%s 1 add", "[%s]", "let T := %s; T", "{%s} apply", "(%s, 0)"]) % ups
                t = "let %s := {%s};" % (f, body)
                env = env + [f]
            else:
                t, stk, env = g.g_let(stk, env, 1)
        elif k < 0.85 and stk:
            t, stk, env = g.g_binder(stk, env, 1)
        elif k < 0.92:
            # shadowing in an inner scope
            if env:
                n = rng.choice(env)
                t = "(let %s := %s; %s)" % (n, g.lit()[0], n)
                stk = stk + ["?"]
            else:
                t, stk, env = g.g_lit(stk, env, 1)
        else:
            # error paths: rebind in one scope, read of an unbound or leaked name
            t = rng.choice(["let %s := 1; let %s := 2;" % ("W", "W"), "U", "(let V := 1;) V", "[let V := 1;] V",
                            "?(let V := 1;) V", '"%( let V := 1; 2 %)" V', "{let V := 1;} V", "(let V := 1;)? V"])
        parts.append(t)
    for n in rng.sample(env, min(len(env), 2)):
        parts.append(n)
    return " ".join(parts)


def nested_blocks(rng, g):
    """blocks nested 1-3 deep, each level reading some up-values before the next level, which reads those and others"""
    n = rng.randint(2, 4)
    names = rng.sample(gen.NAMES, n)
    vals = [g.lit(rng.choice("cs"))[0] for _ in names]
    pre = " ".join("let %s := %s;" % (a, v) for a, v in zip(names, vals))
    if rng.random() < 0.4:
        pre = "(" + ", ".join(g.lit("c")[0] for _ in range(2)) + ") let %s := ; " % names[0] + \
              " ".join("let %s := %s;" % (a, v) for a, v in zip(names[1:], vals[1:]))
    depth = rng.randint(1, 3)

    def level(d):
        reads = rng.sample(names, rng.randint(0, len(names)))
        head = " ".join("%s drop" % r if rng.random() < 0.7 else "[%s] drop" % r for r in reads)
        # a block body is a scope of its own: rebinding a captured name there shadows it for the levels below only
        if rng.random() < 0.5:
            for r in rng.sample(names, rng.randint(1, min(2, len(names)))):
                head += " let %s := %s;" % (r, g.lit(rng.choice("cs"))[0]) if rng.random() < 0.7 else " %s (|%s| " % (g.lit("c")[0], r)
        if d == 0:
            inner = "[" + ", ".join(rng.sample(names, rng.randint(1, len(names)))) + "]"
        else:
            inner = "{ %s } apply" % level(d - 1) if rng.random() < 0.7 else "let Fn := { %s }; Fn" % level(d - 1)
        return (head + " " + inner).strip() + ")" * head.count("(|")
    return "%s { %s } apply %s" % (pre, level(depth - 1), " ".join(rng.sample(names, rng.randint(0, 2))))


def block_names(rng, g):
    """names bound to BLOCKS handed down through one or two levels of block literals (reading such a name runs the block, at
    the place of the read, not where an enclosing block was created), and binders that reuse the name of a vocabulary word
    inside block literals (the binder wins over the word, at every depth)"""
    a, b = g.lit("c")[0], g.lit("c")[0]
    w = rng.choice(["length", "value", "elem", "pos", "type", "dup", "add", "drop", "swap"])
    return rng.choice([
        "let F := {1 add}; {{%s F}} apply apply" % a,
        "let F := {1, 2}; [{{F}} apply] length",
        "let F := {1, 2}; [{{F}} apply apply]",
        "let F := {%s}; let G := {F F}; {{{G}} apply} apply apply" % a,
        "let F := {dup}; %s {{F} apply} apply" % a,
        "let F := {%s}; {let G := {F}; {G}} apply apply" % a,
        "(1, 2) (|X| let F := {X 10 mul}; {{F}} apply apply)",
        "let F := {{%s}}; {{F}} apply apply apply" % a,
        "let F := {1 add}; %s {|X| {X F}} apply apply" % a,
        "let F := {1 add}; let G := {2 mul}; %s {{F G}, {G F}} apply apply" % a,
        '"abc" {|%s| %s} apply' % (w, w),
        "[1, 2, 3] {|A| let %s := 7; A %s} apply" % (w, w),
        "[1, 2, 3] {{|A| let %s := 7; A %s} apply} apply" % (w, w),
        "%s {|%s| {%s} apply} apply" % (a, w, w),
        "%s (|%s| {%s}) apply" % (a, w, w),
        "let %s := %s; {%s} apply" % (w, a, w),
        "let %s := %s; {{%s} apply} apply" % (w, a, w),
        "[1, 2] {let %s := %s; {|A| A %s}} apply apply" % (w, a, w),
        "[1, 2] %s {|A %s| A %s}  apply" % (b, w, w),
        "[5] {|A| A %s} apply" % w,                          # control: the word itself inside a block
        # a binding block with an empty body is a scope all the same
        "%s (|A|) A" % a,
        "let A := %s; 9 (|X| %s (|A|) A)" % (a, b),
        "[1 2 (|A|) (|A|) 3]",
        "%s %s (|A|) (|B|) A" % (a, b),
        "let A := %s; %s (|A|) A" % (a, b),
        # the assertion blocks `?{ … }` / `!{ … }`: a scope of their own, in both polarities
        "let A := %s; 5 !{let A := %s; A 0 ?eq} apply A" % (a, b),
        "let A := %s; 5 ?{let A := %s; A %s ?eq} apply A" % (a, b, b),
        "(1, 2) ?{let B := %s;} apply B" % a,
        "(1, 2) !{let B := %s; 0 1 ?eq} apply B" % a,
        "%s !{|X| X %s ?eq} apply" % (a, b),
        "%s ?{|X| let Y := X; Y %s ?eq} let X := 9; apply X" % (a, a),
        "let F := !{let A := %s; A 0 ?lt}; let A := %s; %s F A" % (a, b, a),
    ])


def infix_lets(rng, g):
    a, b = g.lit("c")[0], g.lit("c")[0]
    return rng.choice([
        "let N := %s; ((let N := %s; N) == N) N" % (a, b),
        "((let M := %s; M) == (let M := %s; M))" % (a, b),
        "1 (|N| ((let M := N 1 add; M) == (let M := 2; M)) N)",
        "((let B := %s; B) == (B))" % a,
        "let A := %s; ((let B := A; B) != (let C := %s; C)) A" % (a, b),
        "((let P := %s;) < P)" % a,
        "let Q := 5; (Q < (let Q := %s; Q)) Q" % a,
    ])


def format_lets(rng, g):
    """format strings with several embedded programs: each `%( … %)` is a scope of its own — a bare `let` in one part
    neither reaches the other parts nor collides with their names"""
    a, b, c = g.lit("c")[0], g.lit("c")[0], g.lit("c")[0]
    return rng.choice([
        'let A := %s; "%%( A %%)-%%( let A := %s; A %%)-%%( A %%)"' % (a, b),
        '"%%( let A := %s; A %%) %%( let A := %s; A %%)"' % (a, b),
        'let A := %s; "%%( let A := %s; A %%)%%( A %%)"' % (a, b),
        '"%%( let T := %s; T %%)|%%( T %%)"' % a,                                  # unbound in the second part
        '"%%( T %%)|%%( let T := %s; T %%)"' % a,                                  # … and in the first
        'let B := %s; "x%%( B %%)y%%( let B := %s; let C := B; C %%)z%%( B %%)%%( let C := %s; C %%)"' % (a, b, c),
        '(|N| "%%( let N := %s; N %%):%%( N %%):%%( let M := N; M %%):%%s")' % a,
        '%s "%%( (|X| X) %%)%%( let X := %s; X %%)%%( (|X| X X) %%)"' % (a, b),
        'let A := %s; "%%( "%%( let A := %s; A %%)%%( A %%)" %%)%%( A %%)"' % (a, b),      # nested strings
    ])


def scope_branches(rng, g):
    """names bound inside the parts of if / then / else, of `,` and `||` branches, of closure bodies and captures: each part
    is a scope of its own; several names of one binder take their values from the stack in a fixed order"""
    a, b, c = g.lit("c")[0], g.lit("c")[0], g.lit("c")[0]
    return rng.choice([
        "let A := %s; if (let A := %s; A) then (let A := %s; A) else (let A := 7; A) A" % (a, b, c),
        "if (let A := %s;) then (A) else (A)" % a,
        "if (1) then (let A := %s;) else (let A := %s;) A" % (a, b),
        "let A := %s; (let A := %s; A, let A := %s; A, A)" % (a, b, c),
        "(let A := %s; A || let A := %s; A) A" % (a, b),
        "let A := %s; (let A := %s; ?(0 1 ?eq) || let A := %s; A) A" % (a, b, c),
        "0 (let A := 1; A add ?(4 ?lt))* " ,
        "0 (let A := 1; A add ?(4 ?lt))+ A",
        "let A := %s; 0 (let A := 1; A add ?(3 ?lt))* A" % a,
        "%s %s [|A B| A, B, B A]" % (a, b),
        "%s %s %s (|A B C| C B A) [|X Y Z| X, Y, Z]" % (a, b, c),
        "%s %s (|A B| (|A| A B) A)" % (a, b),
        "let A := %s; [|A| A] A" % a,
        "%s [|A| let A := %s; A]" % (a, b),
        "let A := %s; let B := {A}; (let A := %s; B apply) A" % (a, b),
        "let F := (let A := %s; {A}); F apply" % a,
        "let F := (%s (|A| {A {A} apply})); F apply apply" % a,
        "let A := %s; (let A := %s;) let A := %s; A" % (a, b, c),
        "%s %s (|A A| A)" % (a, b),
        "(%s, %s) (|A| let B := A; B) B" % (a, b),
        "?((let A := %s; A) ?(A)) A" % a,
        # `E?, F` is ONE alternation of E, nop and F: a name bound by E is not F's
        "(let A := %s;)?, A" % a,
        "let A := %s; ((let A := %s;)?, A)" % (a, b),
        "[(1, 2) (|A| 0 ((let A := A 10 mul;)?, A))]",
        "let A := %s; ((let A := %s; A)?, A, (let A := %s; A))" % (a, b, c),
        "let A := %s; (A, (let A := %s;)?, A) A" % (a, b),
        "((let A := %s;)?, (let A := %s; A))" % (a, b),
        "let A := %s; ((let B := A;)?, (let B := %s; B), A)" % (a, b),
        "let A := %s; {let A := %s; {A} apply} apply" % (a, b),
        "[let A := %s; (%s, %s) {|A| {{A} apply} apply} apply]" % (a, b, c),
        "let A := %s; {%s (|A| {A} apply)} apply A" % (a, b),
        "let A := %s; {{let A := %s; {A}} apply apply} apply" % (a, b),
    ])


def alpha_rename(p, rng):
    """consistently rename the single-capital-letter names of a program"""
    names = sorted(set(re.findall(r"\b[A-Z]\b", p)))
    if not names:
        return None
    fresh = ["Na", "Nb", "Nc", "Nd", "Ne", "Nf", "Ng", "Nh", "Ni", "Nj", "Nk", "Nl"]
    rng.shuffle(fresh)
    m = dict(zip(names, fresh))
    return re.sub(r"\b[A-Z]\b", lambda mo: m[mo.group(0)], p)


def run(ctx):
    ctx.prove("ZwVerif.Props.C03", THEOREMS)
    h = zwcorr.Harness(ctx)
    rng = ctx.rng
    g = gen.Gen(rng, maxdepth=3)
    n = 1200 if ctx.tier == "quick" else 30000
    progs = list(CORPUS)
    if ctx.replay:
        import json
        rp = json.load(open(ctx.replay))
        progs = [rp["input"]] if isinstance(rp.get("input"), str) else list(rp["input"])
        n = 0
    for _ in range(n):
        k = rng.random()
        progs.append(binder_program(rng, g) if k < 0.55 else block_names(rng, g) if k < 0.62 else nested_blocks(rng, g) if k < 0.78 else infix_lets(rng, g)
                     if k < 0.84 else format_lets(rng, g) if k < 0.89 else scope_branches(rng, g))
    stats, irecs, mrecs = zwcorr.run_programs(ctx, h, progs, theorem="ZwVerif.C03.* / engine = ZwVerif.sem",
                                             label="C03-programs")
    # alpha-renaming on the implementation alone
    pairs = []
    lines = []
    for p in progs:
        q = alpha_rename(p, rng)
        if q:
            pairs.append((p, q))
            lines += ["Q - " + zwcorr.hx(p), "Q - " + zwcorr.hx(q)]
    recs, _ = h.run_impl_robust(lines)
    ok = 0
    for k, (p, q) in enumerate(pairs):
        a, b = recs[2 * k], recs[2 * k + 1]
        if a.key() != b.key():
            ctx.violation("renaming bound names consistently changes the outcome: %r -> %r / %r -> %r"
                          % (p, (a.err, a.res[:4]), q, (b.err, b.res[:4])),
                          {"stream": "C03-alpha", "input": [p, q], "got": [a.raw[:8], b.raw[:8]],
                           "theorem": "ZwVerif.C03.lookup_innermost"})
        else:
            ok += 1
    ctx.cov["evaluations"] = stats["programs"] + len(lines)
    ctx.cov["distinct_nontrivial"] = stats["distinct_nontrivial"]
    ctx.cov["alpha_pairs_ok"] = ok
    ctx.cov["compile_error_classes"] = {k: v for k, v in stats.items() if k.startswith("model:compile")}
    ctx.cov["rule"] = ("programs built around binders (let with 1-2 names and multi-yield bodies, (|A|…) [|A|…] ?(|A|…) {|A|…}, "
                       "shadowing, reads inside every kind of sub-expression, blocks capturing 1-3 up-values bound to names and "
                       "applied, leak / rebind / unbound error paths) behind 1-3 input stacks; outcome (results in order, or the "
                       "compile-error class rebound / unbound / other) compared with the Lean model; consistent renaming of names "
                       "must not change the implementation's outcome")
    ctx.cov["input_distribution"] = {k: v for k, v in sorted(stats.items())}
    for p, i in list(zip(progs, irecs))[:2] + list(zip(progs, irecs))[-3:]:
        ctx.sample({"program": p, "impl": i.raw[:5]})
