"""C05 — navigation words (parent/child/root/unit/entry) agree on every DIE, raw and cooked."""
import glob
import os
from . import common, zwcorr, dwcorr

THEOREMS = ["ZwVerif.C05." + t for t in
            ["child_entry", "lowerBound_finds", "child_parent", "root_has_no_parent", "cookedChildren_chain",
             "cookedParent_keeps_chain", "cookedParent_leaves_partial_unit", "cookedRoot_is_fixpoint",
             "parent_chain_ends_at_root", "mem_below", "below_mem",
             "cooked_climb_ends_at_root", "cookedRoot_of_climb", "cookedParent_of_rel", "cparent_det", "rawParent_child",
             "rawParent_root", "unitOf_mem", "findDie_mem", "climb_in_unit"]]

# law queries: every one must yield nothing
LAWS = [
    ("child-parent", "{M}entry (|D| D child parent != D)"),
    ("child-parent-offset", "{M}entry (|D| D child parent (offset != D offset))"),
    ("parent-child", "{M}entry (|D| D parent !(child == D))"),
    ("root-is-end-of-parent-chain", "{M}entry ?(root != parent* ?root)"),
    ("root-satisfies-?root", "{M}entry root !root"),
    ("root-has-no-parent", "{M}entry root parent"),
    ("unit-entry-equals-entry", "[{M}unit entry] != [{M}entry]"),
    ("unit-entry-offsets", "[{M}unit entry offset] != [{M}entry offset]"),
    ("unit-of-listed-die", "raw unit (|U| U entry unit != U)"),
    ("unit-root-unit", "{M}unit (|U| U root unit != U)"),
    ("same-route-equal", "[{M}entry] != [{M}entry]"),
    ("same-route-self", "{M}entry (|D| D != D)"),
    ("same-route-offset-label", "[{M}entry [offset, label]] != [{M}entry [offset, label]]"),
    ("same-route-attributes", "[{M}entry [attribute]] != [{M}entry [attribute]]"),
    ("same-route-children", "{M}entry (|D| [D child] != [D child])"),
    ("root-of-child", "{M}entry (|D| D child root != D root)"),
    # every navigation numbers what it yields from zero
    ("parent-root-unit-numbered-from-zero", "{M}entry (parent, root, unit) ?(pos != 0)"),
    ("children-numbered-from-zero", "{M}entry ?([child pos] (|P| P != [P elem pos]))"),
    ("entries-of-a-unit-numbered-from-zero", "{M}unit ?([entry pos] (|P| P != [P elem pos]))"),
    # the unit of a DIE is ONE unit: exactly one listed unit equals it, and every unit equal to it lists the DIE
    ("unit-of-die-is-one-unit", "(|W| W raw unit (|U| [W raw unit (== U)] length != 1))"),
    ("unit-of-die-lists-it", "(|W| W raw entry ?(pos < 200) (|D| W raw unit (== D unit) !(entry ?(offset == D offset) (== D))))"),
    ("units-equal-only-if-same-entries", "(|W| W raw unit (|U| W raw unit (== U) ?([entry offset] != [U entry offset])))"),
]


def walk(d):
    yield d
    for c in d["children"]:
        yield from walk(c)


def import_stats(desc):
    tg = {}
    for u in desc["units"]:
        for x in walk(u["root"]):
            if x["tag"] == 0x3d:
                for a in x["attrs"]:
                    if a["name"] == 0x18 and isinstance(a["value"], dict):
                        tg.setdefault(u["root"]["offset"], []).append(a["value"]["ref"])
    imports = sum(len(v) for v in tg.values())
    nested = sum(1 for ts in tg.values() for t in ts if t in tg)
    shared = sum(1 for ts in tg.values() if len(set(ts)) < len(ts))
    return imports, nested, shared


def laws(mode):
    return [(n, q.replace("{M}", mode)) for n, q in LAWS]


def run(ctx):
    if ctx.replay:
        return dwcorr.run_replay(ctx)
    ctx.prove("ZwVerif.Props.C05", THEOREMS)
    fs = dwcorr.Forests(ctx)
    rng = ctx.rng
    n = 40 if ctx.tier == "quick" else 1200
    dies = 0
    ok = 0
    stats = {"imports": 0, "nested_imports": 0, "units_importing_one_unit_twice": 0}
    lawq = laws("raw ") + laws("")
    extra = ["raw entry [offset value, unit offset value]", "entry [offset value, unit offset value]",
             "raw unit [[entry offset value], [root child* offset value]]",
             "unit [[entry offset value], [root child* offset value]]",
             dwcorr.COOKED_QUERY]
    try:
        for k in range(n):
            opts = {"max_units": 6, "min_units": 2} if k % 3 else {}
            if k % 7 == 6:
                opts = {"max_units": 8, "min_units": 4, "max_dies": 25}
            if k % 2:
                opts["cu_imports"] = 0.4          # DW_AT_import of a normal compilation unit
            if k % 3 == 1:
                opts["type_units"] = 0.4
            desc, path = fs.make(rng, **opts)
            i, ne, sh = import_stats(desc)
            stats["imports"] += i
            stats["nested_imports"] += ne
            stats["units_importing_one_unit_twice"] += sh
            qs = [q for _, q in lawq] + extra
            recs, crashes = fs.query(path, qs)
            if crashes or any(r.err for r in recs):
                bad = next((q for q, r in zip(qs, recs) if r.err), None)
                ctx.violation("the library failed on a generated forest: %s (%s)" % (bad, crashes or [r.err for r in recs if r.err][:1]),
                              {"stream": "C05-forest", "input": fs.inp(desc, path, bad)})
                continue
            bad = False
            for (name, q), r in zip(lawq, recs):
                if r.res:
                    bad = True
                    ctx.violation("law %s fails: `%s` yields %d result(s) on a generated forest with %d units (%d imports)"
                                  % (name, q, len(r.res), len(desc["units"]), i),
                                  {"stream": "C05-law", "input": fs.inp(desc, path, q), "got": r.res[:5], "expected": []})
            base = len(lawq)
            unit_of = {}
            for u in desc["units"]:
                for x in walk(u["root"]):
                    unit_of[x["offset"]] = u["offset"]
            for j, mode in ((0, "raw"), (1, "cooked")):
                for r in recs[base + j].res:
                    o, uo = [int(x) for x in dwcorr.normalize(r).strip("[]").split(",")]
                    if unit_of.get(o) != uo:
                        bad = True
                        ctx.violation("%s: `unit` of the DIE at %#x is the unit at %#x, but the unit whose raw entry lists it is at %#x"
                                      % (mode, o, uo, unit_of.get(o, -1)),
                                      {"stream": "C05-unit", "input": fs.inp(desc, path, qs[base + j]), "got": uo,
                                       "expected": unit_of.get(o)})
                        break
            for j, mode in ((2, "raw"), (3, "cooked")):
                for r in recs[base + j].res:
                    s = dwcorr.normalize(r)
                    a, b = s[2:-2].split("],[") if s != "[[],[]]" else ("", "")
                    if sorted(a.split(",")) != sorted(b.split(",")):
                        bad = True
                        ctx.violation("%s: the DIEs of a unit (%d) are not those reachable by root child* (%d)"
                                      % (mode, len(a.split(",")), len(b.split(","))),
                                      {"stream": "C05-reach", "input": fs.inp(desc, path, qs[base + j]), "got": b, "expected": a})
                        break
            got = [dwcorr.normalize(r) for r in recs[base + 4].res]
            model = fs.model(desc, ["FCOOKED"])[0]
            dies += len(got)
            if got != model:
                bad = True
                ii = next((x for x, (a, b) in enumerate(zip(got, model)) if a != b), min(len(got), len(model)))
                g = got[ii] if ii < len(got) else None
                m = model[ii] if ii < len(model) else None
                ctx.violation("cooked navigation differs from the forest model at entry #%d: library [offset,[parent],[root],[children],[attributes]] = %s, model %s"
                              % (ii, g, m),
                              {"stream": "C05-model", "input": fs.inp(desc, path, dwcorr.COOKED_QUERY), "got": g, "expected": m,
                               "theorem": "ZwVerif.C05.cookedParent_keeps_chain"})
            if not bad:
                ok += 1
        # the repository's samples
        samples = sorted(glob.glob(os.path.join(common.REPO, "tests", "*.o")) + [os.path.join(common.REPO, "tests", f)
                         for f in ("a1.out", "twocus", "dwz-partial", "dwz-partial2-1", "dwz-partial3-1", "dwz-partial4-1.o",
                                   "haschildren_childless", "empty")])
        samples = sorted(set(s for s in samples if os.path.exists(s)))
        samples = samples + [cp for cp, _ in dwcorr.compiler_objects(fs.dir, 4 if ctx.tier == "quick" else None)]   # compiled on the spot
        pri = [s for s in samples if "dwz" in s or "twocus" in s or "nullptr" in s]
        samples = pri + [s for s in samples if s not in pri]
        if ctx.tier == "quick":
            samples = samples[:8]
        s_ok = 0
        for s in samples:
            qs = [q for _, q in lawq]
            recs, crashes = fs.query(s, qs)
            if crashes or any(r.err for r in recs):
                continue
            fired = [(nq, r) for nq, r in zip(lawq, recs) if r.res]
            for (name, q), r in fired:
                ctx.violation("law %s fails on %s: `%s` yields %d result(s)" % (name, os.path.basename(s), q, len(r.res)),
                              {"stream": "C05-samples", "input": {"file": s, "query": q}, "got": r.res[:5], "expected": []})
            if not fired:
                s_ok += 1
    finally:
        fs.cleanup()
    if not ctx.replay:
        ctx.sample({"law query": lawq[0][1], "cooked entry [offset,[parent],[root],[children],[(attribute,form)]] (library = model)": got[:2]})
    ctx.cov["evaluations"] = dies
    ctx.cov["distinct_nontrivial"] = ok
    ctx.cov["forests"] = n
    ctx.cov["law_queries_per_input"] = len(lawq)
    ctx.cov["sample_files_lawful"] = s_ok
    ctx.cov.update(stats)
    ctx.cov["rule"] = ("generated forests (2-8 units, partial units imported through nested and repeated DW_TAG_imported_unit): "
                       "%d zero-result law queries in raw and cooked mode (child/parent both ways, root = end of parent chain, ?root, "
                       "unit entry = entry, unit of a DIE, same-route equality of DIEs, offsets, labels, attributes), unit membership and "
                       "root child* reachability compared with the description, and [offset, parent, root, children] of every cooked "
                       "entry compared with the Lean forest model; evaluations = cooked entries compared; then the law queries on the "
                       "repository's sample binaries" % len(lawq))
    ctx.assumptions += ["libdw is a parameter of the forest model (validated against generated files, see C02)"]
