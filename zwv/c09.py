"""C09 — comparison is one consistent total order; equality respects constant domains."""
import itertools
from . import common, zwcorr

THEOREMS = ["ZwVerif.C09." + t for t in
            ["cstLt_iff_key", "cst_irrefl", "cst_lt_trans", "cst_trichotomy", "cst_converse", "cst_eq_iff_key",
             "arith_by_value", "unrelated_never_equal", "elfsym_common_equal", "elfsym_specific_differ", "bytes_refl",
             "bytes_eq_iff", "bytes_converse", "cst_copy_equal", "alias_table"]]

# the whole order, for every comparable value (nested sequences to any depth, address sets, opaque DWARF values)
ORDER_THEOREMS = ["ZwVerif.C09." + t for t in
                  ["cmpAny_good", "cmpAny_good_depth", "total", "refl", "converse", "lt_trans", "eq_trans", "lt_asymm", "eq_congr",
                   "seq_by_length", "cstO_good", "bytes_good", "cov_good", "listNat_good", "seqO_good", "seq_cmp_eq"]] + \
    ["ZwVerif." + t for t in ["lexO_good", "cmpListO_good", "lexFull_good", "byNat_good"]]

POOL = [
    # integers in arithmetic domains, equal and different numbers
    "0", "1", "3", "0x3", "03", "0b11", "-1", "0x1", "13", "0xd", "18446744073709551615", "-9223372036854775808",
    '"abc" elem ?1 pos', "0 3 aset elem ?1", "0 3 aset high",
    # non-negative values in signed representation, unsigned values with the top bit set
    "-0", "1 1 sub", "6 -3 mod", "3 -1 mul -1 mul", "0x8000000000000000", "9223372036854775808", "0xffffffffffffffff",
    # machine-specific ELF domains carrying generic codes (reached by arithmetic), and codes >= LOOS
    "STT_ARM_TFUNC 11 sub", "STT_SPARC_REGISTER 11 sub", "STB_MIPS_SPLIT_COMMON 12 sub", "STT_GNU_IFUNC", "STB_GNU_UNIQUE",
    "STT_HP_OPAQUE", "STT_ARM_TFUNC 3 sub",
    # booleans, slot types, named constants of several domains with equal numbers
    "true", "false", "T_CONST", "T_STR", "T_SEQ", "1 type", "DW_TAG_member", "DW_AT_bit_size", "DW_FORM_exprloc",
    "DW_TAG_array_type", "DW_AT_sibling", "DW_LANG_C89", "DW_ATE_address", "DW_OP_addr", "DW_AT_name", "DW_TAG_member value",
    "STT_FUNC", "STT_ARM_TFUNC", "STT_SPARC_REGISTER", "STB_MIPS_SPLIT_COMMON", "STT_OBJECT", "STV_HIDDEN", "STB_GLOBAL",
    # strings
    '""', '"a"', '"ab"', '"b"', '"a\\x00"', '"a\\x00b"', '"\\xff"', '"\\x7f"', '"A"',
    # equal up to and including an embedded NUL, different after it
    '"a\\x00c"', '"\\x00"', '"\\x00a"', '"\\x00b"', '"a\\x00b\\x00"', '["a\\x00b"]', '["a\\x00c"]',
    # sequences
    "[]", "[1]", "[0x1]", "[3]", "[T_CONST]", "[1, 2]", "[2, 1]", '["a"]', "[[1]]", "[[]]", "[1, [2]]", '[1, "a"]', '["a", 1]',
    "[DW_TAG_member]", "[13]",
    # address sets
    "0 0 aset", "0 4 aset", "0 2 aset 2 4 aset add", "1 4 aset", "0 2 aset 3 4 aset add",
]
WORDS = ["?lt", "?eq", "?gt", "?le", "?ge", "?ne", "!lt", "!eq", "!gt", "!le", "!ge", "!ne"]
INFIX = {"?lt": "<", "?eq": "==", "?gt": ">", "?le": "<=", "?ge": ">=", "?ne": "!="}


def dwarf_value_laws(ctx, h):
    """DWARF / ELF values of every documented type: a value equals its copy, exactly one of <, ==, > holds for any two of a
    kind, and A < B iff B > A — on the implementation (raw DIEs: cooked DIEs reached over different import paths are excepted,
    see DESIGN)"""
    import os
    from . import dwcorr, elfsym
    fs = dwcorr.Forests(ctx)
    rng = ctx.rng
    LOCV = "entry attribute ?(label == (DW_AT_location, DW_AT_frame_base, DW_AT_data_member_location, DW_AT_data_location, DW_AT_return_addr, DW_AT_static_link, DW_AT_use_location, DW_AT_vtable_elem_location, DW_AT_segment)) value ?(type == T_LOCLIST_ELEM)"
    kinds = [("raw DIE", "raw entry"), ("raw attribute", "raw entry attribute"), ("attribute", "entry ?(pos < 6) attribute"),
             ("cooked DIE", "entry"), ("unit", "unit"), ("raw unit", "raw unit"), ("location-list element", LOCV), ("location operation", LOCV + " elem"),
             ("abbreviation table", "abbrev"), ("abbreviation", "abbrev entry"), ("abbreviation attribute", "abbrev entry ?(pos < 5) attribute"),
             ("symbol", "symbol")]
    ok = 0
    try:
        files = []
        for k in range(3 if ctx.tier == "quick" else 25):
            desc, path = fs.make(rng, max_units=3, min_units=2 if k % 2 else 1, max_dies=10, rich_ops=0.6, loclists=0.5, extras=0.2)
            files.append(path)
        o = elfsym.gen_symobj(rng, elfsym.TARGETS[rng.randrange(len(elfsym.TARGETS))])
        sp = os.path.join(fs.dir, "sym.o")
        open(sp, "wb").write(o.bytes())
        files += [os.path.join(common.REPO, "tests", f) for f in ("nullptr.o", "location-list.o", "enum.o", "dwz-partial")]
        for path in files + [sp]:
            if not os.path.exists(path):
                continue
            for what, P in kinds:
                if (what == "symbol") != (path == sp):
                    continue
                laws = [("a %s equals its copy" % what, "?([%s] (|L| L elem ?(pos < 40) (|X| X X !eq)))" % P),
                        ("a %s equals its `dup`" % what, "%s dup !eq" % P),
                        ("exactly one of <, ==, > holds for two %ss" % what,
                         "?([%s] (|L| L elem ?(pos < 14) (|X| L elem ?(pos < 14) (|Y| [X Y (?lt, ?eq, ?gt) 1] length != 1))))" % P),
                        ("A < B iff B > A for two %ss" % what,
                         "?([%s] (|L| L elem ?(pos < 14) (|X| L elem ?(pos < 14) (|Y| [X Y ?lt 1] length != [Y X ?gt 1] length))))" % P),
                        ("A == B iff B == A for two %ss" % what,
                         "?([%s] (|L| L elem ?(pos < 14) (|X| L elem ?(pos < 14) (|Y| [X Y ?eq 1] length != [Y X ?eq 1] length))))" % P)]
                if what == "cooked DIE":
                    # cooked DIEs reached over different import paths are excepted from the order laws (see DESIGN); what remains
                    # is that a DIE equals itself and its copy, whatever path it carries
                    laws = laws[:2] + [("a cooked DIE is neither < nor > itself", "entry ?(pos < 80) (|X| X X (?lt, ?gt))")]
                obs = {"location-list element": "[address, [elem [offset, label]]]", "location operation": None,
                       "raw DIE": "offset", "unit": "offset", "raw unit": "offset", "abbreviation": "offset",
                       "abbreviation table": "offset", "symbol": "[pos, name, value]"}.get(what)
                if obs and path in files[:len(files) - 4]:
                    # values that show different things are different (one attribute, one file: nothing shared between them)
                    src = P if what != "location-list element" else "entry ?(pos < 30) attribute ?(label == (DW_AT_location, DW_AT_frame_base)) (|A| [A value ?(type == T_LOCLIST_ELEM)])"
                    if what == "location-list element":
                        laws.append(("two elements of one location that show different things are different",
                                     "%s (|L| L elem (|X| L elem (|Y| ?(X %s != Y %s) ?(X == Y))))" % (src, obs, obs)))
                    else:
                        laws.append(("two %ss that show different things are different" % what,
                                     "?([%s] (|L| L elem ?(pos < 14) (|X| L elem ?(pos < 14) (|Y| ?(X %s != Y %s) ?(X == Y)))))" % (P, obs, obs)))
                if what == "raw DIE":
                    # the same DIE reached through an import and without one (a cooked copy of the raw DIE): the one without a
                    # path stands for every occurrence — equal both ways round, whichever side carries the path
                    laws.append(("a DIE reached through an import equals the same DIE without an import path, both ways round",
                                 "?([entry] (|L| [raw entry cooked] (|M| L elem ?(pos < 60) (|X| M elem ?(offset == X offset) "
                                 "(|Y| ([X Y ?eq 1] length != 1) || ([Y X ?eq 1] length != 1))))))"))
                recs, crashes = fs.query(path, [q for _, q in laws])
                if crashes:
                    ctx.violation("the library crashed comparing %ss of %s: %s" % (what, os.path.basename(path), crashes[0][1][-200:]),
                                  {"stream": "C09-dwarf-values", "input": fs.inp(None, path, laws[crashes[0][0]][1] if crashes[0][0] < len(laws) else None)})
                for (nm, q), r in zip(laws, recs):
                    if r.err and r.err.startswith("compile"):
                        raise RuntimeError("law query does not compile: %s: %s" % (q, r.err))
                    if r.err:
                        continue
                    if r.res:
                        ctx.violation("law fails on %s: %s — `%s` yields a result" % (os.path.basename(path), nm, q),
                                      {"stream": "C09-dwarf-values", "input": fs.inp(None, path, q), "got": r.res[:2], "expected": [],
                                       "theorem": "ZwVerif.C09.cmpAny_good"})
                    else:
                        ok += 1
    finally:
        fs.cleanup()
    return ok


def run(ctx):
    ctx.prove("ZwVerif.Props.C09", THEOREMS + ORDER_THEOREMS, extra_targets=["ZwVerif.Props.C09Order"])
    h = zwcorr.Harness(ctx)
    rng = ctx.rng
    pool = POOL
    pairs = list(itertools.product(range(len(pool)), repeat=2))
    if ctx.tier == "quick":
        # always: every pair of named / ELF constants and every pair of integers; a sample of the rest
        named = [i for i, v in enumerate(pool) if v.startswith(("ST", "DW_", "T_")) or v in ("true", "false", "1 type")]
        ints = [i for i, v in enumerate(pool) if v[0] in "-0123456789" and "aset" not in v]
        strs = [i for i, v in enumerate(pool) if v.startswith('"') and " " not in v]
        seqs = [i for i, v in enumerate(pool) if v.startswith("[") and v.endswith("]")]
        asets = [i for i, v in enumerate(pool) if "aset" in v and "elem" not in v and "high" not in v]
        must = set(itertools.product(named, repeat=2)) | set(itertools.product(ints, repeat=2)) | \
            set(itertools.product(strs, repeat=2)) | set(itertools.product(seqs, repeat=2)) | \
            set(itertools.product(asets, repeat=2)) | set((i, i) for i in range(len(pool)))
        pairs = sorted(must | set(rng.sample(pairs, 700)))
    # one query per ordered pair yields a 12-bit signature: which comparison words hold
    def sigq(a, b):
        return "[%s]" % ", ".join("(%s) (%s) (%s 1 || 0)" % (a, b, w) for w in WORDS)
    # simpler and robust: one query per (pair, word)
    progs = []
    index = {}
    for (i, j) in pairs:
        for w in WORDS[:6]:
            index[(i, j, w)] = len(progs)
            progs.append("%s %s %s" % (pool[i], pool[j], w))
    if ctx.replay:
        import json
        rp = json.load(open(ctx.replay))
        progs = [rp["input"]] if isinstance(rp.get("input"), str) else list(rp["input"])
        pairs = []
    stats, irecs, mrecs = zwcorr.run_programs(ctx, h, progs, theorem="ZwVerif.C09.cstLt_iff_key / engine = ZwVerif.sem",
                                             label="C09-pairs")
    holds = lambda i, j, w: (len(irecs[index[(i, j, w)]].res) > 0) if (i, j, w) in index else None
    laws = 0
    for (i, j) in pairs:
        lt, eq, gt = holds(i, j, "?lt"), holds(i, j, "?eq"), holds(i, j, "?gt")
        le, ge, ne = holds(i, j, "?le"), holds(i, j, "?ge"), holds(i, j, "?ne")
        if any(irecs[index[(i, j, w)]].err for w in WORDS[:6]):
            continue
        a, b = pool[i], pool[j]
        def bad(msg):
            ctx.violation("%s: A = %s, B = %s (lt=%s eq=%s gt=%s le=%s ge=%s ne=%s)" % (msg, a, b, lt, eq, gt, le, ge, ne),
                          {"stream": "C09-laws", "input": ["%s %s %s" % (a, b, w) for w in WORDS[:6]],
                           "theorem": "ZwVerif.C09.cst_trichotomy / cst_converse"})
        if [lt, eq, gt].count(True) != 1:
            bad("not exactly one of <, ==, > holds")
        elif le != (lt or eq) or ge != (gt or eq) or ne != (not eq):
            bad("derived comparisons disagree with <, ==, >")
        elif i == j and not eq:
            bad("a value does not equal its own copy")
        else:
            laws += 1
        if (j, i) in index and (j, i, "?gt") in index:
            if lt != holds(j, i, "?gt") or eq != holds(j, i, "?eq"):
                bad("A < B but not B > A (or == not symmetric)")
    # aliases and infix forms, and transitivity on sampled triples — implementation alone
    lines = []
    al = []
    for (i, j) in rng.sample(pairs, min(len(pairs), 150 if ctx.tier == "quick" else 1500)):
        for w in WORDS[:6]:
            neg = {"?lt": "!ge", "?eq": "!ne", "?gt": "!le", "?le": "!gt", "?ge": "!lt", "?ne": "!eq"}[w]
            forms = ["%s %s %s" % (pool[i], pool[j], w), "%s %s %s" % (pool[i], pool[j], neg),
                     "(%s %s %s)" % (pool[i], INFIX[w], pool[j])]
            al.append(forms)
            lines += ["Q - " + zwcorr.hx(f) for f in forms]
    recs, _ = h.run_impl_robust(lines)
    alias_ok = 0
    for k, forms in enumerate(al):
        r = recs[3 * k:3 * k + 3]
        got = [len(x.res) > 0 for x in r]
        if any(x.err for x in r):
            continue
        if len(set(got)) != 1:
            ctx.violation("aliases disagree: %r -> %r" % (forms, got),
                          {"stream": "C09-alias", "input": forms, "theorem": "ZwVerif.C09.alias_table"})
        else:
            alias_ok += 1
    # transitivity: A < B, B < C => A < C ; A == B, B == C => A == C
    full = {}
    for (i, j) in pairs:
        if (i, j, "?lt") in index and not irecs[index[(i, j, "?lt")]].err:
            full[(i, j)] = (holds(i, j, "?lt"), holds(i, j, "?eq"))
    trans = 0
    keys = list(full)
    byfirst = {}
    for (i, j) in keys:
        byfirst.setdefault(i, []).append(j)
    for (i, j) in keys:
        for k in byfirst.get(j, []):
            if (i, k) not in full:
                continue
            trans += 1
            if full[(i, j)][0] and full[(j, k)][0] and not full[(i, k)][0]:
                ctx.violation("< is not transitive: %s < %s < %s but not %s < %s" % (pool[i], pool[j], pool[k], pool[i], pool[k]),
                              {"stream": "C09-trans", "input": [pool[i], pool[j], pool[k]], "theorem": "ZwVerif.C09.cst_lt_trans"})
            if full[(i, j)][1] and full[(j, k)][1] and not full[(i, k)][1]:
                ctx.violation("== is not transitive: %s == %s == %s but not %s == %s" % (pool[i], pool[j], pool[k], pool[i], pool[k]),
                              {"stream": "C09-trans", "input": [pool[i], pool[j], pool[k]], "theorem": "ZwVerif.C09.cst_eq_iff_key"})
    ctx.cov["dwarf_value_laws_ok"] = 0 if ctx.replay else dwarf_value_laws(ctx, h)
    # named constants of different families are never equal, even with equal numbers: every named constant against the equal-
    # numbered constants of three other families (the family is what the name says: DW_TAG_, DW_AT_, DW_MACINFO_, DW_MACRO_ …)
    fam_ok = 0
    if not ctx.replay:
        import re as _re, collections as _co
        vw = [zwcorr.unhx(w).decode() for w in h.words.split()[1:]]
        named_ = [w for w in vw if _re.match(r"^(DW_[A-Z]+_|ST[TBV]_)", w)]
        vrecs_, _ = h.run_impl_robust(["Q - " + zwcorr.hx("%s value" % w) for w in named_])
        def fam(nm):
            m_ = _re.match(r"(DW_[A-Z]+_|ST[TBV]_)", nm)
            return m_.group(0) if m_ else None
        byval = _co.defaultdict(lambda: _co.defaultdict(list))
        for nm, r_ in zip(named_, vrecs_):
            m_ = _re.match(r"c\(dec\|(-?\d+)\)@0", r_.res[0]) if (r_.res and not r_.err) else None
            if m_:
                byval[int(m_.group(1))][fam(nm)].append(nm)
        flines, fmeta = [], []
        for val, fams in byval.items():
            fl = sorted(fams)
            for f1 in fl:
                others = [f2 for f2 in fl if f2 != f1 and not (f1.startswith("ST") and f2.startswith("ST") and f1 == f2)]
                for f2 in (others if ctx.tier != "quick" else rng.sample(others, min(6, len(others)))) + \
                        [f for f in others if f[:6] == f1[:6]]:          # look-alike families always: DW_MACRO_ / DW_MACINFO_, DW_DS_ / DW_DSC_
                    a_, b_ = rng.choice(fams[f1]), rng.choice(fams[f2])
                    flines.append("Q - " + zwcorr.hx("%s %s ?eq" % (a_, b_)))
                    fmeta.append((a_, b_))
        frecs, _ = h.run_impl_robust(flines)
        for (a_, b_), r_ in zip(fmeta, frecs):
            if r_.err or r_.soft:
                continue
            if r_.res:
                ctx.violation("%s == %s holds: constants of different families, equal only in number" % (a_, b_),
                              {"stream": "C09-vocabulary", "input": "%s %s ?eq" % (a_, b_), "got": r_.res[:1], "expected": [],
                               "theorem": "ZwVerif.C09.unrelated_never_equal"})
            else:
                fam_ok += 1
    ctx.cov["cross_family_pairs_ok"] = fam_ok
    ctx.cov["evaluations"] = stats["programs"] + len(lines)
    ctx.cov["distinct_nontrivial"] = stats["distinct_nontrivial"]
    ctx.cov["pairs_law_checked"] = laws
    ctx.cov["alias_triples_ok"] = alias_ok
    ctx.cov["transitivity_triples_checked"] = trans
    ctx.cov["pool_size"] = len(pool)
    ctx.cov["exhaustive"] = ctx.tier != "quick"
    ctx.cov["rule"] = ("ordered pairs from a pool of %d values (integers in every arithmetic domain, booleans, slot types, DW_* and "
                       "ELF constants with equal numbers in different domains, strings incl. NUL / high bytes, nested sequences, "
                       "address sets) × six comparison words: compared with the Lean model where it models the values; on the "
                       "implementation: trichotomy, derived comparisons, converse, reflexivity of copies, alias and infix agreement, "
                       "transitivity of < and == over all available triples" % len(pool))
    ctx.cov["input_distribution"] = {k: v for k, v in sorted(stats.items())}
    for p, i in list(zip(progs, irecs))[:3]:
        ctx.sample({"program": p, "impl": i.raw[:3]})
    ctx.assumptions += ["DIE / attribute / symbol values are compared in the DWARF checks (known finding K3: DIE == across import "
                        "paths is not transitive)", "closures are excepted by the property"]
