"""C02 — raw view reports exactly the DIE tree stored in .debug_info."""
import glob
import os
from . import common, zwcorr, dwcorr

THEOREMS = ["ZwVerif.C02." + t for t in
            ["iter_step", "iter_is_preorder", "parentTable_offsets", "raw_positions"]]


RAW_NAVS = ["parent", "child", "root", "unit root", "unit entry", "parent parent", "child parent", "parent child",
            # (not `attribute value` / `@AT_x`: at_value builds cooked DIEs by design — `@AT_x` is documented as sugar for
            # `attribute ?(label == AT_x) cooked value` — and `value` is not one of the raw-view words of the property)
            "(|D| D parent ?(offset == D parent offset))", "dup parent swap drop", "?(parent) parent"]


def run(ctx):
    if ctx.replay:
        return dwcorr.run_replay(ctx)
    ctx.prove("ZwVerif.Props.C02", THEOREMS)
    fs = dwcorr.Forests(ctx)
    rng = ctx.rng
    n = 60 if ctx.tier == "quick" else 1500
    ok = 0
    dies = 0
    shapes = {}
    nav_results = {}
    try:
        for k in range(n):
            opts = {}
            if k % 5 == 0:
                opts = {"max_dies": 1, "max_depth": 0}          # empty units
            elif k % 5 == 1:
                opts = {"max_units": 6, "min_units": 3}
            if k % 2:
                opts.update({"dup_attrs": 0.15, "implicit_consts": 0.5, "cu_imports": 0.3})
            if k % 4 == 3:
                opts["vendor_forms"] = 0.15       # GNU_str_index / GNU_addr_index: form codes above 0xff
            if k % 5 == 4:
                opts["dangling_refs"] = 0.6       # a specification / abstract_origin libdw cannot resolve: still listed raw
            if k % 3 == 2:
                opts["type_units"] = 0.4           # DWARF 5 type units: roots that are neither compile nor partial units
            desc, path = fs.make(rng, **opts)
            want = dwcorr.oracle_raw(desc)
            recs, crashes = fs.query(path, [dwcorr.RAW_QUERY, "raw unit offset value", "raw unit root offset value",
                                            "raw entry pos",
                                            # the same questions asked last DIE first and last unit first (caches keyed per unit)
                                            "[raw entry] relem [offset value, [parent offset value], [child offset value]]",
                                            "[raw unit] relem [offset value, [entry [offset value, [parent offset value]]]]"])
            # whatever word leads from a raw DIE to a DIE, the DIE arrived at is raw: its children and attributes are the stored ones
            import json as _json
            byoff = dict((x[0], x) for x in (_json.loads(w) for w in want))
            nrecs, _ = fs.query(path, ["raw entry %s [offset value, [child offset value], [attribute label value]]" % nav for nav in RAW_NAVS])
            for nav, nr in zip(RAW_NAVS, nrecs):
                if nr.err:
                    if nr.err.startswith("compile"):
                        raise RuntimeError("navigation query does not compile: %s: %s" % (nav, nr.err))
                    continue
                nav_results[nav] = nav_results.get(nav, 0) + len(nr.res)
                for r in nr.res:
                    x = _json.loads(dwcorr.normalize(r))
                    t = byoff.get(x[0])
                    if t is None or x[1] != t[4] or x[2] != [a for a, _ in t[5]]:
                        ctx.violation("`raw entry %s` arrives at DIE %s which shows children %s and attributes %s; the file holds %s"
                                      % (nav, x[0], x[1], x[2], [t[4], [a for a, _ in t[5]]] if t else None),
                                      {"stream": "C02-forest", "input": fs.inp(desc, path, "raw entry %s [offset value, [child offset value], [attribute label value]]" % nav),
                                       "got": x, "expected": t, "theorem": "ZwVerif.C02.iter_is_preorder"})
                        break
            if crashes or recs[0].err:
                ctx.violation("the library failed on a generated forest (%d units): %s" % (len(desc["units"]), recs[0].err or crashes),
                              {"stream": "C02-forest", "input": fs.inp(desc, path, dwcorr.RAW_QUERY)})
                continue
            got = [dwcorr.normalize(r) for r in recs[0].res]
            model = fs.model(desc, ["FRAW"])[0]
            dies += len(want)
            shapes[len(desc["units"])] = shapes.get(len(desc["units"]), 0) + 1
            units = [dwcorr.normalize(r) for r in recs[1].res]
            roots = [dwcorr.normalize(r) for r in recs[2].res]
            poss = [r.split("|")[-1].split(")")[0] for r in recs[3].res]
            problems = []
            if got != want:
                i = next((i for i, (a, b) in enumerate(zip(got, want)) if a != b), min(len(got), len(want)))
                problems.append("raw DIE #%d: library reports %s, the file holds %s (library lists %d DIEs, file has %d)"
                                % (i, got[i] if i < len(got) else None, want[i] if i < len(want) else None, len(got), len(want)))
            if units != [str(u["offset"]) for u in desc["units"]]:
                problems.append("raw unit offsets %r, file has %r" % (units, [u["offset"] for u in desc["units"]]))
            if roots != [str(u["root"]["offset"]) for u in desc["units"]]:
                problems.append("unit roots %r" % roots)
            if poss != [str(i) for i in range(len(want))]:
                problems.append("`raw entry` positions are not 0..n-1: %r" % poss[:10])
            if not recs[4].err:
                import json as _json
                rev = [dwcorr.normalize(r) for r in recs[4].res]
                wrev = []
                for w in reversed(want):
                    x = _json.loads(w)
                    wrev.append(_json.dumps([x[0], x[2], x[4]], separators=(",", ":")))
                if rev != wrev:
                    j = next((j for j, (a, b) in enumerate(zip(rev, wrev)) if a != b), min(len(rev), len(wrev)))
                    problems.append("asked in reverse section order, DIE [offset, parent, children] = %s, the file holds %s"
                                    % (rev[j] if j < len(rev) else None, wrev[j] if j < len(wrev) else None))
            if not recs[5].err:
                import json as _json
                revu = [_json.loads(dwcorr.normalize(r)) for r in recs[5].res]
                byunit = {}
                for u in desc["units"]:
                    ents = []

                    def walk_u(d, par):
                        ents.append([d["offset"], [par] if par is not None else []])
                        for c in d["children"]:
                            walk_u(c, d["offset"])
                    walk_u(u["root"], None)
                    byunit[u["offset"]] = ents
                wantu = [[u["offset"], byunit[u["offset"]]] for u in reversed(desc["units"])]
                if revu != wantu:
                    problems.append("units asked last first: a unit's [offset, entries with parents] differ from the file")
            if problems:
                ctx.violation("forest with %d units: %s" % (len(desc["units"]), "; ".join(problems)),
                              {"stream": "C02-forest", "input": fs.inp(desc, path, dwcorr.RAW_QUERY), "got": got[:50],
                               "expected": want[:50], "theorem": "ZwVerif.C02.iter_is_preorder"})
            elif model != want:
                ctx.violation("the Lean forest model disagrees with the ground truth (and the library agrees with the truth)",
                              {"stream": "C02-forest", "input": fs.inp(desc, path, None), "model": model[:20], "expected": want[:20],
                               "correspondence": "ZwVerif.Model.Dwarf vs forest description"}, found_input=False)
            else:
                ok += 1
        # compiler-produced objects, cross-checked against an independent dumper (llvm-dwarfdump)
        cc_ok = cc_dies = 0
        for cpath, label in dwcorr.compiler_objects(fs.dir, 6 if ctx.tier == "quick" else None):
            want = dwcorr.llvm_dies(cpath)
            if want is None:
                continue
            recs, crashes = fs.query(cpath, [dwcorr.RAW_QUERY])
            if crashes or recs[0].err:
                ctx.violation("the library failed on an object just compiled (%s): %s" % (label, recs[0].err or crashes),
                              {"stream": "C02-compiler", "input": fs.inp(None, cpath, dwcorr.RAW_QUERY)})
                continue
            got = [dwcorr.normalize(r) for r in recs[0].res]
            cc_dies += len(want)
            if got != want:
                i = next((i for i, (a, b) in enumerate(zip(got, want)) if a != b), min(len(got), len(want)))
                ctx.violation("%s: raw DIE #%d: library reports %s, llvm-dwarfdump decodes %s (library lists %d DIEs, llvm %d)"
                              % (label, i, got[i] if i < len(got) else None, want[i] if i < len(want) else None, len(got), len(want)),
                              {"stream": "C02-compiler", "input": fs.inp(None, cpath, dwcorr.RAW_QUERY), "got": got[i] if i < len(got) else None,
                               "expected": want[i] if i < len(want) else None})
            else:
                cc_ok += 1
        ctx.cov["compiler_objects_agreeing_with_llvm_dwarfdump"] = cc_ok
        ctx.cov["compiler_object_dies"] = cc_dies
        # the repository's sample binaries: raw listing must be self-consistent (children's parent is the DIE; no duplicates)
        samples = sorted(glob.glob(os.path.join(common.REPO, "tests", "*.o")) + [os.path.join(common.REPO, "tests", f)
                         for f in ("a1.out", "twocus", "dwz-partial", "dwz-partial2-1", "haschildren_childless", "empty")])
        samples = [s for s in samples if os.path.exists(s)]
        all_samples = list(samples)
        if ctx.tier == "quick":
            samples = samples[:12]
        s_ok = 0
        for s in samples:
            recs, crashes = fs.query(s, ["raw entry offset value", "raw entry (|D| D child parent (offset != D offset))",
                                         "raw entry ?root parent", "raw unit root !root"])
            if recs[0].err or crashes:
                continue
            offs = [dwcorr.normalize(r) for r in recs[0].res]
            # (offsets may repeat across the main and the alternate debug file of dwz samples)
            if any(len(r.res) for r in recs[1:]):
                ctx.violation("raw navigation inconsistent in %s: %r" % (s, [r.res[:2] for r in recs[1:]]),
                              {"stream": "C02-samples", "input": s})
            else:
                s_ok += 1
        # … and their main file's DIEs (offset, tag, parent, children flag, children, (attribute, form) in stored order) are what an
        # independent dumper decodes; dwz samples go on with the alternate file's DIEs, which are not compared
        s_llvm = 0
        for s in all_samples:
            want = dwcorr.llvm_dies(s)
            if not want:
                continue
            recs, crashes = fs.query(s, [dwcorr.RAW_QUERY])
            if crashes or recs[0].err:
                continue
            got = [dwcorr.normalize(r) for r in recs[0].res][:len(want)]
            if got != want:
                i = next((i for i, (a, b) in enumerate(zip(got, want)) if a != b), min(len(got), len(want)))
                ctx.violation("%s: raw DIE #%d: library reports %s, llvm-dwarfdump decodes %s"
                              % (os.path.basename(s), i, got[i] if i < len(got) else None, want[i] if i < len(want) else None),
                              {"stream": "C02-samples", "input": {"file": s, "query": dwcorr.RAW_QUERY},
                               "got": got[i] if i < len(got) else None, "expected": want[i] if i < len(want) else None})
            else:
                s_llvm += 1
        ctx.cov["sample_files_agreeing_with_llvm_dwarfdump"] = s_llvm
    finally:
        fs.cleanup()
    ctx.cov["evaluations"] = dies + ctx.cov.get("compiler_object_dies", 0)
    ctx.cov["distinct_nontrivial"] = ok
    ctx.cov["forests"] = n
    ctx.cov["forests_by_unit_count"] = shapes
    ctx.cov["raw_navigation_results"] = nav_results
    ctx.cov["sample_files_consistent"] = s_ok
    ctx.cov["rule"] = ("generated DWARF forests (1-6 units, DWARF 2-5 headers, empty units, childless DIEs whose abbreviation claims "
                       "children, nesting to depth 4, sibling attributes, all common forms) whose bytes and offsets are laid out by the "
                       "generator: `raw entry` (offset, tag, parent, children flag, children, (attribute, form) list in stored order), "
                       "`raw unit`, positions — compared record by record with the description and with the Lean forest model; "
                       "evaluations = DIEs compared; objects compiled on the spot by gcc / g++ (DWARF 2-5, -O0..-O2, C and C++) compared DIE by DIE "
                       "with llvm-dwarfdump's decoding; plus self-consistency of the repository's sample binaries")
    ctx.sample({"first records": dwcorr.oracle_raw(desc)[:3]})
    ctx.assumptions += ["elfutils (libdw) is a parameter: the forest model is what dwarf_child / dwarf_siblingof / dwarf_getattrs "
                        "report; validated here against files whose content is known by construction"]
