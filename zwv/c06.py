"""C06 — cooked view = raw view with imports inlined and inherited attributes integrated."""
import glob
import os
from . import common, zwcorr, dwcorr, forest
from .c05 import walk, import_stats

THEOREMS = ["ZwVerif.C06." + t for t in
            ["cookedChildren_no_resolved_import", "cookedChildren_raw", "cookedChildren_in_place", "partial_units_not_listed",
             "listed_units_not_partial", "attribute_no_name_twice", "go_secondary", "attribute_own_first", "findAttr_own",
             "findAttr_not_integrated", "findAttr_prefers_specification", "schedule_specification_on_top", "schedule_origin_below",
             "cookedBelow_raw", "cooked_unit_is_raw"]]

SAMPLE_ATS = ["name", "type", "decl_line", "decl_file", "declaration", "sibling", "external", "byte_size", "location",
              "specification", "abstract_origin", "object_pointer", "inline", "low_pc", "high_pc", "encoding", "const_value",
              "data_member_location", "language", "artificial"]
SAMPLE_TAGS = ["compile_unit", "partial_unit", "imported_unit", "subprogram", "variable", "base_type", "formal_parameter",
               "structure_type", "member", "typedef", "pointer_type", "const_type", "lexical_block", "enumerator"]
SAMPLE_FORMS = ["string", "strp", "data1", "data2", "data4", "data8", "sdata", "udata", "ref4", "ref_addr", "flag", "flag_present",
                "addr", "exprloc", "sec_offset", "block1", "implicit_const", "GNU_strp_alt", "GNU_ref_alt"]
SAMPLE_OPS = ["addr", "fbreg", "plus_uconst", "call_frame_cfa", "reg5", "breg7", "deref", "stack_value", "piece", "lit0", "const1u",
              "consts", "bregx", "GNU_entry_value", "entry_value", "implicit_value"]


# a copy of a DWARF value (binding read, dup, branch, sub-expression) shows what the value shows — in both views
COPY_LAWS = []
for _m in ("", "raw "):
    COPY_LAWS += dwcorr.copy_laws(_m + "DIE", _m + "entry", ["offset", "label", "[child offset]", "[attribute label]", "[parent offset]", "[root offset]"]) \
        + dwcorr.copy_laws(_m + "attribute", _m + "entry attribute",
                           ["label", "form", "[?(label == (DW_AT_name, DW_AT_type, DW_AT_decl_line, DW_AT_byte_size, DW_AT_external)) value]"]) \
        + dwcorr.copy_laws(_m + "unit", _m + "unit", ["offset", "[root offset]", "[entry offset]"]) \
        + dwcorr.copy_laws(_m + "Dwarf", _m.strip() or "cooked", ["[unit offset]", "[entry offset]"])


def at_laws(nm):
    return [("@AT_%s = attribute ?AT_%s cooked value" % (nm, nm), "entry ?([@AT_%s] != [attribute ?AT_%s cooked value])" % (nm, nm)),
            ("?AT_%s implies attribute ?AT_%s yields" % (nm, nm), "entry ?AT_%s !(attribute ?AT_%s)" % (nm, nm)),
            ("attribute ?AT_%s yields implies ?AT_%s" % (nm, nm), "entry !AT_%s ?(attribute ?AT_%s)" % (nm, nm)),
            ("attribute ?AT_%s yields at most once" % nm, "entry ?([attribute ?AT_%s] length > 1)" % nm)]


def label_laws(tags, forms, ops):
    qs = []
    for t in tags:
        qs.append(("?TAG_%s iff label == DW_TAG_%s" % (t, t), "entry (?TAG_%s (label != DW_TAG_%s), !TAG_%s (label == DW_TAG_%s))" % (t, t, t, t)))
    for f in forms:
        qs.append(("?FORM_%s iff form == DW_FORM_%s" % (f, f),
                   "entry attribute (?FORM_%s (form != DW_FORM_%s), !FORM_%s (form == DW_FORM_%s))" % (f, f, f, f)))
    for o in ops:
        qs.append(("?OP_%s iff label == DW_OP_%s" % (o, o),
                   "entry attribute ?AT_location value elem (?OP_%s (label != DW_OP_%s), !OP_%s (label == DW_OP_%s))" % (o, o, o, o)))
    return qs


def run_laws(ctx, fs, path, laws, desc, stream, counts):
    qs = [q for _, q in laws]
    recs, crashes = fs.query(path, qs)
    if crashes:
        ctx.violation("the library crashed on a law query: %r" % (crashes,),
                      {"stream": stream, "input": fs.inp(desc, path, qs[0])})
        return False
    good = True
    for (name, q), r in zip(laws, recs):
        if r.err and r.err.startswith("compile"):
            raise RuntimeError("law query does not compile: %s: %s" % (q, r.err))
        if r.err:
            # the documented refusal to decode (e.g. const_value of unknown signedness) aborts the whole query: nothing is decided
            counts["inconclusive"] = counts.get("inconclusive", 0) + 1
            continue
        counts["decided"] = counts.get("decided", 0) + 1
        if r.res:
            good = False
            ctx.violation("law fails: %s — `%s` yields %d result(s)%s" % (name, q, len(r.res), "" if desc else " on " + os.path.basename(path)),
                          {"stream": stream, "input": fs.inp(desc, path, q) if desc else {"file": path, "query": q},
                           "got": r.res[:5], "expected": []})
    return good


def run(ctx):
    if ctx.replay:
        return dwcorr.run_replay(ctx)
    ctx.prove("ZwVerif.Props.C06", THEOREMS + ["ZwVerif.DieIt." + t for t in
              ["producer_refines", "range_drain", "cooked_no_import", "cooked_plain", "cookedBelow_of_cooked", "cookedChildren_of_cooked"]],
              extra_targets=["ZwVerif.Props.C06DieIt"])
    fs = dwcorr.Forests(ctx)
    rng = ctx.rng
    n = 40 if ctx.tier == "quick" else 1200
    dies = 0
    ok = 0
    counts = {}
    stats = {"imports": 0, "nested_imports": 0, "dies_with_specification_and_abstract_origin": 0, "integration_chains_over_one_hop": 0,
             "model_internal_find_vs_attribute_disagreements": 0}
    try:
        todo = [(d, pth) for d, pth in fs.corpus("C06")] if not ctx.replay else []
        stats["corpus_files"] = len(todo)
        for k in range(-len(todo), n):
            if k < 0:
                desc, path = todo[k + len(todo)]
            opts = {"max_units": 5, "min_units": 2, "cross_unit_chains": k % 2 == 0}
            if k % 4 == 3:
                opts["max_chain"] = 6
            if k % 3 == 1:
                opts.update({"cu_imports": 0.4, "implicit_consts": 0.4})
            if k % 3 == 2:
                opts["type_units"] = 0.4
            if k % 2 == 1:
                opts["both_refs"] = 0.5       # DIEs with DW_AT_specification and DW_AT_abstract_origin, stored in either order
            if k >= 0:
                desc, path = fs.make(rng, **opts)
            i, ne, _ = import_stats(desc)
            stats["imports"] += i
            stats["nested_imports"] += ne
            byoff = {}
            for u in desc["units"]:
                for x in walk(u["root"]):
                    byoff[x["offset"]] = x
            names, tags, forms = set(), set(), set()
            for x in byoff.values():
                an = {a["name"]: a for a in x["attrs"]}
                names |= set(an)
                tags.add(x["tag"])
                forms |= set(a["form"] for a in x["attrs"])
                if 0x31 in an and 0x47 in an:
                    stats["dies_with_specification_and_abstract_origin"] += 1
                for r in (0x31, 0x47):
                    if r in an and isinstance(an[r]["value"], dict):
                        t = byoff.get(an[r]["value"].get("ref"))
                        if t and any(a["name"] in (0x31, 0x47) for a in t["attrs"]):
                            stats["integration_chains_over_one_hop"] += 1
            laws = [("name = @AT_name", "entry ?([name] != [@AT_name])"),
                    ("no attribute name twice", "entry ?([attribute label] (|L| L elem (|E| [L elem (== E)] length > 1)))"),
                    ("own attributes first", "entry ?([raw attribute label] (|R| [attribute label] (|C| C !(R ?starts))))") ,
                    ("no inherited sibling/declaration",
                     "entry (|D| D attribute (?AT_sibling, ?AT_declaration) !(D raw attribute == ))"),
                    ("cooked unit is never partial", "unit root ?TAG_partial_unit"),
                    ("no imported_unit among cooked children", "entry child ?TAG_imported_unit ?AT_import")]
            laws = [l for l in laws if "!(D raw attribute == )" not in l[1]]
            for nmb in sorted(names):
                nm = forest.DW_AT.name(nmb)
                if nm:
                    laws += at_laws(nm)
            laws += at_laws("frame_base") + at_laws("ranges")          # mostly absent
            laws += COPY_LAWS
            laws += label_laws([forest.DW_TAG.name(t) for t in sorted(tags) if forest.DW_TAG.name(t)] + ["label"],
                               [forest.DW_FORM.name(f) for f in sorted(forms) if forest.DW_FORM.name(f)] + ["data16"],
                               ["addr", "fbreg", "plus_uconst", "call_frame_cfa", "reg5", "lit0", "stack_value", "breg7", "deref"])
            good = run_laws(ctx, fs, path, laws, desc, "C06-law", counts)
            recs, crashes = fs.query(path, [dwcorr.COOKED_QUERY, "unit offset value",
                                            "entry [offset value, [attribute (|A| [A label value, A form value, A cooked value "
                                            "?(type == T_DIE) offset value])]]"])
            if crashes or recs[0].err or recs[1].err:
                ctx.violation("the library failed on a generated forest: %s" % (crashes or recs[0].err or recs[1].err),
                              {"stream": "C06-forest", "input": fs.inp(desc, path, dwcorr.COOKED_QUERY)})
                continue
            got = [dwcorr.normalize(r) for r in recs[0].res]
            m = fs.model(desc, ["FCOOKED", "FUNITS", "FATCHK"])
            model, munits, chk = m[0], m[1], m[2]
            dies += len(got)
            stats["model_internal_find_vs_attribute_disagreements"] += len(chk)
            if got != model:
                good = False
                ii = next((x for x, (a, b) in enumerate(zip(got, model)) if a != b), min(len(got), len(model)))
                g = got[ii] if ii < len(got) else None
                mm = model[ii] if ii < len(model) else None
                ctx.violation("cooked entry #%d differs from the forest model: library [offset,[parent],[root],[children],[(attribute,form)]] = %s, model %s"
                              % (ii, g, mm),
                              {"stream": "C06-model", "input": fs.inp(desc, path, dwcorr.COOKED_QUERY), "got": g, "expected": mm,
                               "theorem": "ZwVerif.C06.attribute_own_first"})
            units = [dwcorr.normalize(r) for r in recs[1].res]
            if units != munits:
                good = False
                ctx.violation("cooked `unit` lists units at %r, the model (non-partial units in order) %r" % (units, munits),
                              {"stream": "C06-units", "input": fs.inp(desc, path, "unit offset value"), "got": units, "expected": munits,
                               "theorem": "ZwVerif.C06.partial_units_not_listed"})
            if chk:
                good = False
                ctx.violation("inside the model `find_attribute` and `attribute` pick different DIEs: %s" % chk[:3],
                              {"stream": "C06-model-internal", "input": fs.inp(desc, path, None),
                               "correspondence": "Dwarf.findAttr vs Dwarf.attrsCooked"}, found_input=False)
            if good:
                ok += 1
        # samples
        samples = [os.path.join(common.REPO, "tests", f) for f in
                   ("nullptr.o", "dwz-partial", "dwz-partial2-1", "dwz-partial3-1", "dwz-partial4-1.o", "a1.out", "twocus",
                    "typedef.o", "enum.o", "inline.o", "bitcount.o", "aranges.o", "const_value_on_enum.o", "y.o", "float.o",
                    "char_16_32.o", "pointer_const_value.o", "testfile_const_type", "empty")]
        samples = [s for s in samples if os.path.exists(s)]
        if ctx.tier == "quick":
            samples = samples[:6]
        samples = samples + [cp for cp, _ in dwcorr.compiler_objects(fs.dir, 4 if ctx.tier == "quick" else None)]   # compiled on the spot
        s_ok = 0
        for s in samples:
            laws = [("name = @AT_name", "entry ?([name] != [@AT_name])"),
                    ("no attribute name twice", "entry ?([attribute label] (|L| L elem (|E| [L elem (== E)] length > 1)))"),
                    ("own attributes first", "entry ?([raw attribute label] (|R| [attribute label] (|C| C !(R ?starts))))"),
                    ("cooked unit is never partial", "unit root ?TAG_partial_unit"),
                    ("no imported_unit among cooked children", "entry child ?TAG_imported_unit ?AT_import")]
            for nm in SAMPLE_ATS:
                laws += at_laws(nm)
            laws += label_laws(SAMPLE_TAGS, SAMPLE_FORMS, SAMPLE_OPS) + COPY_LAWS
            if run_laws(ctx, fs, s, laws, None, "C06-samples", counts):
                s_ok += 1
    finally:
        fs.cleanup()
    if not ctx.replay:
        ctx.sample({"law query": laws[-1][1] if laws else None, "cooked entry (library = model)": got[:2] if got else None})
    ctx.cov["evaluations"] = dies
    ctx.cov["distinct_nontrivial"] = ok
    ctx.cov["forests"] = n
    ctx.cov["law_queries"] = counts
    ctx.cov["sample_files_lawful"] = s_ok
    ctx.cov.update(stats)
    ctx.cov["rule"] = ("generated forests with nested / repeated imports and specification / abstract_origin chains (also across units, up "
                       "to 6 hops, DIEs with both references): every cooked entry's [children, (attribute, form) list] and the cooked unit "
                       "list vs the Lean forest model; per attribute name present, @AT_x = attribute ?AT_x cooked value, ?AT_x iff "
                       "attribute ?AT_x yields, at most once; name = @AT_name; own attributes first; ?TAG_x / ?FORM_x / ?OP_x iff label / "
                       "form equal the constant; same laws on the repository's dwz and C++ samples; evaluations = cooked entries compared")
    ctx.assumptions += ["libdw is a parameter of the forest model (validated against generated files, see C02)",
                        "a law query that the library refuses to run (documented diagnostics such as const_value of unknown signedness) "
                        "decides nothing and is counted as inconclusive"]
