"""Query-level correspondence: the same Zwerg programs through harness/zwharness.cc (the working
tree's lexer, parser, simplifier, builder and pull engine) and through the model driver
(ZwVerif.Model.{Lexer,Parser,Bind,Sem}); canonicalise; compare."""
import binascii
import collections
import re
from . import common


def hx(s):
    if isinstance(s, str):
        s = s.encode("utf-8", "surrogateescape")
    return binascii.hexlify(s).decode() or "e"


def unhx(h):
    return binascii.unhexlify(h)


SOFT = [
    (re.compile(r"^Error: `apply' expects"), "apply"),
    (re.compile(r"^Error: `.*' expects"), "overload"),
    (re.compile(r"^Error: `.*' has no registered"), "overload"),
    (re.compile(r"^Error: cast to"), "cast"),
    (re.compile(r"^Error: (overflow|division by zero)"), "arith"),
    (re.compile(r"^Warning:"), "warn"),
    (re.compile(r"^Error: Can't compare"), "cmp"),
    (re.compile(r"^Error: (could not compile regular|match failed)"), "regex"),
]


def soft_class(line):
    for rx, c in SOFT:
        if rx.search(line):
            return c
    return "other:" + line[:60]


def compile_class(msg):
    if msg.startswith("Name `") or msg == "rebound":
        return "rebound"
    if msg.startswith("Attempt to read an unbound name") or msg == "unbound":
        return "unbound"
    return "other"


class Rec:
    """one answer: tree, results, soft errors, error"""
    __slots__ = ("tree", "res", "soft", "err", "raw", "inputs")

    def __init__(self):
        self.tree = None
        self.res = []
        self.soft = []
        self.err = None
        self.raw = []
        self.inputs = []

    def key(self, ordered=True):
        res = self.res if ordered else sorted(self.res)
        return (self.tree, tuple(res), tuple(sorted(self.soft)), self.err)


def parse_records(lines, impl):
    out = []
    cur = Rec()
    for l in lines:
        if l == ".":
            out.append(cur)
            cur = Rec()
            continue
        cur.raw.append(l)
        tag, _, rest = l.partition(" ")
        if tag == "T":
            cur.tree = rest
        elif tag == "R":
            cur.res.append(rest)
        elif tag == "I":
            cur.inputs.append(rest)
            cur.res.append("I " + rest)
        elif tag == "W":
            cur.soft.append(soft_class(rest) if impl else rest)
        elif tag == "E":
            ph, _, msg = rest.partition(" ")
            if ph == "compile":
                cur.err = "compile:" + compile_class(msg)
            elif ph == "run":
                if impl:
                    cur.err = "run:underflow" if msg == "stack overflow" else "run:" + msg[:80]
                else:
                    cur.err = "run:" + msg
            else:
                cur.err = ph + ":" + msg[:80]
    return out


class Harness:
    def __init__(self, ctx, variant="plain", budget=3000, secs=4):
        self.ctx = ctx
        self.exe = ctx.harness("zwharness", variant)
        self.budget = budget
        self.secs = secs
        self.finite = False
        self.hangs = 0
        rc, out, err = common.run_lines(self.exe, ["D", "V", "K"])
        self.types = out[0]
        self.domorder = out[1]
        self.words = out[3]
        self.consts = next((l for l in out if l.startswith("consts")), "consts")
        self.cfg = ["cfg " + self.types, "cfg " + self.domorder, "cfg " + self.words, "cfg " + self.consts]

    def run_impl(self, lines, timeout=1800):
        """returns (records, crashed_index or None, stderr)"""
        rc, out, err = common.run_lines(self.exe, lines, timeout=timeout, args=[str(self.budget), str(self.secs)])
        recs = parse_records(out, True)
        crashed = None
        if rc != 0 or len(recs) != len(lines):
            crashed = len(recs)
        return recs, crashed, err

    def run_impl_robust(self, lines):
        """run; when the harness dies on a line, record that and continue after it.
        Returns (records, crashes) with crashes = [(line index, stderr tail)]."""
        recs = []
        crashes = []
        i = 0
        ntimeouts = 0
        while i < len(lines):
            rc, out, err = common.run_lines(self.exe, lines[i:], timeout=3600, args=[str(self.budget), str(self.secs)])
            r = parse_records(out, True)
            if rc == 0 and len(r) == len(lines) - i:
                recs += r
                break
            if r and r[-1].err and r[-1].err.startswith("timeout"):
                r[-1].err = "timeout"          # complete record, the harness stopped itself
                recs += r
                i += len(r)
                if self.finite:
                    # every request of this harness has a finite documented meaning (DWARF / ELF queries over a file): not
                    # finishing within the limit is a failure in itself; after three of them the check stops
                    self.hangs += 1
                    line = lines[i - 1]
                    parts = line.split(" ")
                    what = {"query": unhx(parts[2]).decode("latin-1") if len(parts) > 2 else line,
                            "file": unhx(parts[3]).decode("latin-1") if len(parts) > 3 else None}
                    try:
                        import base64, os
                        if what["file"] and os.path.getsize(what["file"]) < 200000:
                            what["object_b64"] = base64.b64encode(open(what["file"], "rb").read()).decode()
                    except OSError:
                        pass
                    self.ctx.violation("the implementation does not finish `%s` on %s within %d s" % (what["query"][:120], what["file"], self.secs),
                                       {"stream": "hang", "input": what, "got": "no end within %d s" % self.secs})
                    if self.hangs >= 3:
                        raise common.Abort()
                # only timeouts in a row count: a sporadic non-terminating program is nothing unusual in a mutated corpus
                ntimeouts = ntimeouts + 1 if len(r) == 1 else 1
                if ntimeouts >= 8:
                    # something hangs systematically: the first ones are enough to report, the rest would take hours
                    while len(recs) < len(lines):
                        sk = Rec()
                        sk.err = "skipped"
                        recs.append(sk)
                    break
                continue
            # died without finishing the request at index i + len(r)
            recs += r
            dead = Rec()
            dead.err = "crash"
            crashes.append((i + len(r), err[-1500:]))
            recs.append(dead)
            i += len(r) + 1
            if len(crashes) > 25:
                break
        return recs, crashes

    def run_model(self, lines, fuel=None):
        pre = list(self.cfg)
        if fuel:
            pre.append("cfg fuel %d" % fuel)
        out = common.run_model(pre + lines)
        return parse_records(out, False)


def comparable(mrec):
    """the model declines to predict run-time results of programs using words it does not model,
    or that exceed its evaluation budget"""
    if mrec.err and (mrec.err.startswith("run:unsupported") or mrec.err == "run:fuel"):
        return False
    return True


def diff(irec, mrec, ordered=True):
    """None if equal, else a short description"""
    if not comparable(mrec):
        # compile outcome must still agree
        if irec.err and irec.err.startswith("compile"):
            return "impl rejects (%s), model compiles" % irec.err
        return None
    if (irec.err or "").startswith("budget") or irec.err == "timeout":
        return None
    if irec.key(ordered) == mrec.key(ordered):
        return None
    if irec.err != mrec.err:
        return "error: impl %r model %r" % (irec.err, mrec.err)
    if (irec.tree or mrec.tree) and irec.tree != mrec.tree:
        return "tree: impl %r model %r" % (unhx(irec.tree or "")[:200], unhx(mrec.tree or "")[:200])
    if sorted(irec.res) != sorted(mrec.res):
        return "results differ: impl %r model %r" % (irec.res[:6], mrec.res[:6])
    if irec.res != mrec.res:
        return "order differs: impl %r model %r" % (irec.res[:6], mrec.res[:6])
    if irec.err and irec.err == mrec.err and irec.err.startswith("run"):
        # both abort with the same run-time error: the engine pulls lazily, so diagnostics of upstream stacks it never
        # came to pull are not printed; the model evaluates a segment at a time.  What the engine did print must be
        # among what the model says can be printed.
        from collections import Counter
        if not (Counter(irec.soft) - Counter(mrec.soft)):
            return None
    return "soft errors differ: impl %r model %r" % (sorted(irec.soft), sorted(mrec.soft))


def shrink(ctx, h, prog, still_fails, maxsteps=200):
    """greedy token-deletion shrinking of a failing program"""
    toks = prog.split(" ")
    steps = 0
    changed = True
    while changed and steps < maxsteps:
        changed = False
        for i in range(len(toks)):
            cand = toks[:i] + toks[i + 1:]
            if not cand:
                continue
            steps += 1
            if still_fails(" ".join(cand)):
                toks = cand
                changed = True
                break
            if steps >= maxsteps:
                break
    return " ".join(toks)


# ---------------------------------------------------------------------------------------------
# generic query-level check used by C01, C03, C04, C10, C11, C15 …

def classify_mismatch(irec, mrec):
    """'results' (multiset / errors differ: the documented meaning is violated), 'order' (same
    multiset, different order), 'tree', or None"""
    d = diff(irec, mrec)
    if d is None:
        return None, None
    if d.startswith("order differs"):
        return "order", d
    return "results", d


def run_programs(ctx, h, progs, flags="-", what="program", theorem="", ordered_matters=None,
                 max_report=5, label="query"):
    """Run programs through implementation and model, report violations.  Returns statistics."""
    lines = ["Q %s %s" % (flags, hx(p)) for p in progs]
    irecs, crashes = h.run_impl_robust(lines)
    mrecs = h.run_model(lines)
    stats = collections.Counter()
    nontrivial = set()
    reported = 0
    for idx, err in crashes:
        if reported < max_report:
            ctx.violation("the implementation crashed / aborted on %s %r: %s" % (what, progs[idx], err.strip()[-300:]),
                          {"stream": label, "input": progs[idx], "stderr": err, "theorem": theorem}, found_input=True)
            reported += 1
    for p, i, m in zip(progs, irecs, mrecs):
        stats["programs"] += 1
        stats["model:" + (m.err or "ok").split(":")[0] + (":" + m.err.split(":")[1] if m.err and m.err.count(":") else "")] += 1
        if len(m.res) > 1:
            stats["multi-result"] += 1
        if m.soft:
            stats["with-soft-error"] += 1
        if not comparable(m):
            stats["not-predicted"] += 1
        elif len(m.res) >= 1 or m.soft or m.err:
            nontrivial.add(p)
        if i.err in ("crash", "skipped"):
            continue
        if i.err == "timeout" and comparable(m) and not (m.err or "").startswith("run:fuel") and stats["mismatch:hang"] < 2 \
                and reported < max_report:
            # the model evaluates the program to completion: give the implementation ten times the limit, alone
            rc_, out_, _ = common.run_lines(h.exe, ["Q %s %s" % (flags, hx(p))], timeout=600, args=[str(h.budget), str(h.secs * 10)])
            r_ = parse_records(out_, True)
            if r_ and r_[0].err and r_[0].err.startswith("timeout"):
                stats["mismatch:hang"] += 1
                reported += 1
                ctx.violation("%s %r: the implementation does not finish within %d s; its documented meaning is finite (%d results%s)"
                              % (what, p, h.secs * 10, len(m.res), ", " + m.err if m.err else ""),
                              {"stream": label, "input": p, "flags": flags, "got": "no end within %d s" % (h.secs * 10),
                               "expected": m.raw[:20], "theorem": theorem}, found_input=True)
            continue
        kind, d = classify_mismatch(i, m)
        if kind is None:
            continue
        stats["mismatch:" + kind] += 1
        if reported >= max_report:
            continue
        reported += 1

        def still(q, kind=kind):
            l = ["Q %s %s" % (flags, hx(q))]
            ir, _ = h.run_impl_robust(l)
            mr = h.run_model(l)
            if mr[0].err and mr[0].err.startswith("compile") and ir[0].err == mr[0].err:
                return False
            k2, _ = classify_mismatch(ir[0], mr[0])
            return k2 == kind
        q = shrink(ctx, h, p, still, maxsteps=120)
        l = ["Q %s %s" % (flags, hx(q))]
        ir, _ = h.run_impl_robust(l)
        mr = h.run_model(l)
        d2 = diff(ir[0], mr[0]) or d
        rep = {"stream": label, "input": q, "original_input": p, "flags": flags, "got": ir[0].raw[:20],
               "expected": mr[0].raw[:20], "theorem": theorem, "minimised": q != p}
        if kind == "results":
            ctx.violation("%s %r: implementation and documented meaning differ: %s" % (what, q, d2[:300]), rep,
                          found_input=True)
        else:
            strict = ordered_matters(q) if ordered_matters else False
            if strict:
                ctx.violation("%s %r: documented result order violated: %s" % (what, q, d2[:300]), rep, found_input=True)
            else:
                rep["correspondence"] = "zwharness vs ZwVerif.Model.Sem (scheduling order only; multiset of results unchanged)"
                ctx.violation("%s %r: results come in a different order than the engine model predicts (same multiset): %s"
                              % (what, q, d2[:200]), rep, found_input=False)
    stats["distinct_nontrivial"] = len(nontrivial)
    return stats, irecs, mrecs


def single_input_documented_order(q):
    """programs for which the documentation fixes the order: no stream prefix feeding an ALT —
    conservatively: exactly one ALT/elem/relem/sequence literal construct and nothing multi-yielding before it"""
    import re as _re
    body = q.strip()
    # a single top-level construct on the empty stack
    if _re.fullmatch(r"\((\s*[-\w\"\\]+\s*,)+\s*[-\w\"\\]+\s*\)", body):
        return True
    if _re.fullmatch(r"\[[^\[\]()]*\](\s+(elem|relem))?", body):
        return True
    if _re.fullmatch(r"\"[^\"%]*\"\s+(elem|relem)", body):
        return True
    return False
