"""Query-level correspondence: the same Zwerg programs through harness/zwharness.cc (the working
tree's lexer, parser, simplifier, builder and pull engine) and through the model driver
(ZwVerif.Model.{Lexer,Parser,Bind,Sem}); canonicalise; compare."""
import binascii
import collections
import re
from . import common


def hx(s):
    if isinstance(s, str):
        s = s.encode("utf-8", "surrogateescape")
    return binascii.hexlify(s).decode()


def unhx(h):
    return binascii.unhexlify(h)


SOFT = [
    (re.compile(r"^Error: `apply' expects"), "apply"),
    (re.compile(r"^Error: `.*' expects"), "overload"),
    (re.compile(r"^Error: `.*' has no registered"), "overload"),
    (re.compile(r"^Error: cast to"), "cast"),
    (re.compile(r"^Error: (overflow|division by zero)"), "arith"),
    (re.compile(r"^Warning:"), "warn"),
    (re.compile(r"^Error: Can't compare"), "cmp"),
    (re.compile(r"^Error: (could not compile regular|match failed)"), "regex"),
]


def soft_class(line):
    for rx, c in SOFT:
        if rx.search(line):
            return c
    return "other:" + line[:60]


def compile_class(msg):
    if msg.startswith("Name `") or msg == "rebound":
        return "rebound"
    if msg.startswith("Attempt to read an unbound name") or msg == "unbound":
        return "unbound"
    return "other"


class Rec:
    """one answer: tree, results, soft errors, error"""
    __slots__ = ("tree", "res", "soft", "err", "raw", "inputs")

    def __init__(self):
        self.tree = None
        self.res = []
        self.soft = []
        self.err = None
        self.raw = []
        self.inputs = []

    def key(self, ordered=True):
        res = self.res if ordered else sorted(self.res)
        return (self.tree, tuple(res), tuple(sorted(self.soft)), self.err)


def parse_records(lines, impl):
    out = []
    cur = Rec()
    for l in lines:
        if l == ".":
            out.append(cur)
            cur = Rec()
            continue
        cur.raw.append(l)
        tag, _, rest = l.partition(" ")
        if tag == "T":
            cur.tree = rest
        elif tag == "R":
            cur.res.append(rest)
        elif tag == "I":
            cur.inputs.append(rest)
            cur.res.append("I " + rest)
        elif tag == "W":
            cur.soft.append(soft_class(rest) if impl else rest)
        elif tag == "E":
            ph, _, msg = rest.partition(" ")
            if ph == "compile":
                cur.err = "compile:" + compile_class(msg)
            elif ph == "run":
                if impl:
                    cur.err = "run:underflow" if msg == "stack overflow" else "run:" + msg[:80]
                else:
                    cur.err = "run:" + msg
            else:
                cur.err = ph + ":" + msg[:80]
    return out


class Harness:
    def __init__(self, ctx, variant="plain", budget=20000):
        self.ctx = ctx
        self.exe = ctx.harness("zwharness", variant)
        self.budget = budget
        rc, out, err = common.run_lines(self.exe, ["D", "V"])
        self.types = out[0]
        self.domorder = out[1]
        self.words = out[3]
        self.cfg = ["cfg " + self.types, "cfg " + self.domorder, "cfg " + self.words]

    def run_impl(self, lines, timeout=1800):
        """returns (records, crashed_index or None, stderr)"""
        rc, out, err = common.run_lines(self.exe, lines, timeout=timeout, args=[str(self.budget)])
        recs = parse_records(out, True)
        crashed = None
        if rc != 0 or len(recs) != len(lines):
            crashed = len(recs)
        return recs, crashed, err

    def run_impl_robust(self, lines):
        """run; when the harness dies on a line, record that and continue after it.
        Returns (records, crashes) with crashes = [(line index, stderr tail)]."""
        recs = []
        crashes = []
        i = 0
        while i < len(lines):
            rc, out, err = common.run_lines(self.exe, lines[i:], timeout=3600, args=[str(self.budget)])
            r = parse_records(out, True)
            if rc == 0 and len(r) == len(lines) - i:
                recs += r
                break
            if r and r[-1].err and r[-1].err.startswith("timeout"):
                r[-1].err = "timeout"          # complete record, the harness stopped itself
                recs += r
                i += len(r)
                continue
            # died without finishing the request at index i + len(r)
            recs += r
            dead = Rec()
            dead.err = "crash"
            crashes.append((i + len(r), err[-1500:]))
            recs.append(dead)
            i += len(r) + 1
            if len(crashes) > 25:
                break
        return recs, crashes

    def run_model(self, lines, fuel=None):
        pre = list(self.cfg)
        if fuel:
            pre.append("cfg fuel %d" % fuel)
        out = common.run_model(pre + lines)
        return parse_records(out, False)


def comparable(mrec):
    """the model declines to predict run-time results of programs using words it does not model,
    or that exceed its evaluation budget"""
    if mrec.err and (mrec.err.startswith("run:unsupported") or mrec.err == "run:fuel"):
        return False
    return True


def diff(irec, mrec, ordered=True):
    """None if equal, else a short description"""
    if not comparable(mrec):
        # compile outcome must still agree
        if irec.err and irec.err.startswith("compile"):
            return "impl rejects (%s), model compiles" % irec.err
        return None
    if (irec.err or "").startswith("budget") or irec.err == "timeout":
        return None
    if irec.key(ordered) == mrec.key(ordered):
        return None
    if irec.err != mrec.err:
        return "error: impl %r model %r" % (irec.err, mrec.err)
    if (irec.tree or mrec.tree) and irec.tree != mrec.tree:
        return "tree: impl %r model %r" % (unhx(irec.tree or "")[:200], unhx(mrec.tree or "")[:200])
    if sorted(irec.res) != sorted(mrec.res):
        return "results differ: impl %r model %r" % (irec.res[:6], mrec.res[:6])
    if irec.res != mrec.res:
        return "order differs: impl %r model %r" % (irec.res[:6], mrec.res[:6])
    return "soft errors differ: impl %r model %r" % (sorted(irec.soft), sorted(mrec.soft))


def shrink(ctx, h, prog, still_fails, maxsteps=200):
    """greedy token-deletion shrinking of a failing program"""
    toks = prog.split(" ")
    steps = 0
    changed = True
    while changed and steps < maxsteps:
        changed = False
        for i in range(len(toks)):
            cand = toks[:i] + toks[i + 1:]
            if not cand:
                continue
            steps += 1
            if still_fails(" ".join(cand)):
                toks = cand
                changed = True
                break
            if steps >= maxsteps:
                break
    return " ".join(toks)
